// bsfacts - fact extractor for the BitSerializer static verification framework.
//
// Parses ONE translation unit with clang's front end (type-checked AST, template
// instantiations included) and writes one JSON document describing every function body
// that lives in the repository (or in a witness file): statement tree with resolved
// callees, types, cast kinds, clang-evaluated constants; the clang CFG; records; objects
// with static storage duration and their evaluated initialisers.
//
// Nothing is executed: this is a dump of the compiler's resolved program.
//
// usage: bsfacts <out.json> <repo-prefix>[:<prefix2>...] <source> -- <compiler flags>

#include "clang/AST/ASTConsumer.h"
#include "clang/AST/ASTContext.h"
#include "clang/AST/DeclCXX.h"
#include "clang/AST/DeclTemplate.h"
#include "clang/AST/Expr.h"
#include "clang/AST/ExprCXX.h"
#include "clang/AST/ParentMapContext.h"
#include "clang/AST/RecursiveASTVisitor.h"
#include "clang/AST/StmtCXX.h"
#include "clang/Analysis/CFG.h"
#include "clang/Basic/SourceManager.h"
#include "clang/Frontend/CompilerInstance.h"
#include "clang/Frontend/FrontendAction.h"
#include "clang/Sema/Sema.h"
#include "clang/Tooling/CommonOptionsParser.h"
#include "clang/Tooling/Tooling.h"
#include "llvm/Support/CommandLine.h"
#include "llvm/Support/raw_ostream.h"

#include <deque>
#include <map>
#include <set>
#include <string>
#include <unordered_map>
#include <unordered_set>
#include <vector>

using namespace clang;

namespace {

std::string gOutPath;
std::vector<std::string> gPrefixes;

// ---------------------------------------------------------------- JSON writer helpers
std::string jesc(llvm::StringRef s) {
  std::string o;
  o.reserve(s.size() + 2);
  o.push_back('"');
  for (unsigned char c : s) {
    switch (c) {
    case '"': o += "\\\""; break;
    case '\\': o += "\\\\"; break;
    case '\n': o += "\\n"; break;
    case '\r': o += "\\r"; break;
    case '\t': o += "\\t"; break;
    default:
      if (c < 0x20 || c >= 0x7f) {
        char b[8];
        snprintf(b, sizeof b, "\\u%04x", c);
        o += b;
      } else
        o.push_back((char)c);
    }
  }
  o.push_back('"');
  return o;
}

struct Sym {
  std::string json;
};

class Dumper {
public:
  Dumper(ASTContext &C, Sema &S) : Ctx(C), S(S), SM(C.getSourceManager()), PP(C.getLangOpts()) {
    PP.SuppressTagKeyword = true;
    PP.Bool = true;
    PP.SuppressUnwrittenScope = true;
    PP.FullyQualifiedName = true;
    PP.TerseOutput = true;
    PP.PolishForDeclaration = true;
  }

  ASTContext &Ctx;
  Sema &S;
  SourceManager &SM;
  PrintingPolicy PP;

  // interned tables
  std::vector<std::string> types;
  std::unordered_map<std::string, int> typeIdx;
  std::vector<std::string> files;
  std::unordered_map<std::string, int> fileIdx;
  std::vector<std::string> syms; // json per symbol
  std::unordered_map<const Decl *, int> symIdx;
  std::unordered_map<const Decl *, int> declIds;
  std::deque<const FunctionDecl *> queue;
  std::unordered_set<const FunctionDecl *> queued;
  std::unordered_set<const CXXRecordDecl *> recordsSeen;
  std::vector<const CXXRecordDecl *> recordQueue;
  std::unordered_set<const VarDecl *> globalsSeen;
  std::vector<const VarDecl *> globalList;
  std::vector<std::string> funcJson;
  std::vector<std::string> globalAccessJson;
  std::vector<std::string> enumJson;

  // ------------------------------------------------------------------ locations
  std::string fileOf(SourceLocation L) {
    if (L.isInvalid()) return "";
    L = SM.getExpansionLoc(L);
    PresumedLoc P = SM.getPresumedLoc(L);
    if (P.isInvalid()) return "";
    return P.getFilename();
  }
  unsigned lineOf(SourceLocation L) {
    if (L.isInvalid()) return 0;
    L = SM.getExpansionLoc(L);
    PresumedLoc P = SM.getPresumedLoc(L);
    if (P.isInvalid()) return 0;
    return P.getLine();
  }
  unsigned colOf(SourceLocation L) {
    if (L.isInvalid()) return 0;
    L = SM.getExpansionLoc(L);
    PresumedLoc P = SM.getPresumedLoc(L);
    if (P.isInvalid()) return 0;
    return P.getColumn();
  }
  static std::string normPath(std::string p) {
    // collapse "/./" and "x/../"
    std::vector<std::string> parts;
    std::string cur;
    bool abs = !p.empty() && p[0] == '/';
    for (size_t i = 0; i <= p.size(); ++i) {
      if (i == p.size() || p[i] == '/') {
        if (cur == "..") {
          if (!parts.empty()) parts.pop_back();
        } else if (!cur.empty() && cur != ".")
          parts.push_back(cur);
        cur.clear();
      } else
        cur.push_back(p[i]);
    }
    std::string o = abs ? "/" : "";
    for (size_t i = 0; i < parts.size(); ++i) {
      if (i) o += "/";
      o += parts[i];
    }
    return o;
  }
  bool inRepoFile(const std::string &f) {
    std::string n = normPath(f);
    for (auto &p : gPrefixes)
      if (n.compare(0, p.size(), p) == 0) return true;
    return false;
  }
  bool inRepo(SourceLocation L) { return inRepoFile(fileOf(L)); }
  int fileId(const std::string &f) {
    std::string n = normPath(f);
    auto it = fileIdx.find(n);
    if (it != fileIdx.end()) return it->second;
    int id = files.size();
    files.push_back(n);
    fileIdx[n] = id;
    return id;
  }

  // ------------------------------------------------------------------ types
  int typeId(QualType T) {
    if (T.isNull()) return -1;
    std::string s = T.getCanonicalType().getAsString(PP);
    auto it = typeIdx.find(s);
    if (it != typeIdx.end()) return it->second;
    int id = types.size();
    types.push_back(s);
    typeIdx[s] = id;
    return id;
  }

  int declId(const Decl *D) {
    if (!D) return -1;
    D = D->getCanonicalDecl();
    auto it = declIds.find(D);
    if (it != declIds.end()) return it->second;
    int id = declIds.size();
    declIds[D] = id;
    return id;
  }

  // ------------------------------------------------------------------ names
  std::string diagName(const NamedDecl *D) {
    std::string s;
    llvm::raw_string_ostream os(s);
    D->getNameForDiagnostic(os, PP, true);
    os.flush();
    return s;
  }
  std::string className(const CXXRecordDecl *R) {
    if (!R) return "";
    if (R->isLambda()) {
      std::string s = "(lambda at " + normPath(fileOf(R->getLocation())) + ":" + std::to_string(lineOf(R->getLocation())) + ":" +
                      std::to_string(colOf(R->getLocation())) + ")";
      return s;
    }
    QualType T = Ctx.getRecordType(R);
    return T.getCanonicalType().getAsString(PP);
  }

  std::string templArgs(const FunctionDecl *FD) {
    std::string s;
    if (auto *TA = FD->getTemplateSpecializationArgs()) {
      llvm::raw_string_ostream os(s);
      for (unsigned i = 0; i < TA->size(); ++i) {
        if (i) os << ", ";
        TA->get(i).print(PP, os, true);
      }
      os.flush();
    }
    return s;
  }

  bool resolveNothrow(const FunctionDecl *FD) {
    const auto *FPT = FD->getType()->getAs<FunctionProtoType>();
    if (!FPT) return false;
    if (isUnresolvedExceptionSpec(FPT->getExceptionSpecType())) {
      FPT = S.ResolveExceptionSpec(FD->getLocation(), FPT);
      if (!FPT) return false;
    }
    if (FPT->getExceptionSpecType() == EST_Unparsed) return false;
    return FPT->isNothrow();
  }

  const FunctionDecl *patternOf(const FunctionDecl *FD) {
    if (const FunctionDecl *P = FD->getTemplateInstantiationPattern()) return P;
    return FD;
  }

  std::string funcKind(const FunctionDecl *FD) {
    if (isa<CXXConstructorDecl>(FD)) return "ctor";
    if (isa<CXXDestructorDecl>(FD)) return "dtor";
    if (isa<CXXConversionDecl>(FD)) return "conv";
    if (auto *MD = dyn_cast<CXXMethodDecl>(FD)) {
      if (MD->getParent()->isLambda()) return "lambda";
      if (MD->isOverloadedOperator()) return "opmethod";
      return "method";
    }
    if (FD->isOverloadedOperator()) return "opfree";
    return "free";
  }

  std::string functionKey(const FunctionDecl *FD) {
    std::string s;
    if (auto *MD = dyn_cast<CXXMethodDecl>(FD)) {
      const CXXRecordDecl *R = MD->getParent();
      if (R->isLambda()) {
        s = className(R) + "::operator()";
        std::string ta = templArgs(FD);
        if (!ta.empty()) s += "<" + ta + ">";
      } else {
        s = className(R) + "::";
        std::string n;
        llvm::raw_string_ostream os(n);
        FD->getNameForDiagnostic(os, PP, false);
        os.flush();
        s += n;
      }
    } else {
      s = diagName(FD);
    }
    s += "|";
    s += FD->getType().getCanonicalType().getAsString(PP);
    return s;
  }

  int symId(const FunctionDecl *FD) {
    if (!FD) return -1;
    // Prefer the definition when there is one, so that all references agree.
    const FunctionDecl *Def = nullptr;
    if (FD->hasBody(Def) && Def) FD = Def;
    const Decl *Key = FD->getCanonicalDecl();
    auto it = symIdx.find(Key);
    if (it != symIdx.end()) return it->second;
    int id = syms.size();
    symIdx[Key] = id;
    syms.emplace_back();
    std::string j = "{";
    j += "\"id\":" + jesc(functionKey(FD));
    j += ",\"q\":" + jesc(FD->getQualifiedNameAsString());
    j += ",\"n\":" + jesc(FD->getDeclName().getAsString());
    j += ",\"kind\":" + jesc(funcKind(FD));
    bool repo = inRepo(FD->getLocation());
    const FunctionDecl *Pat = patternOf(FD);
    if (!repo && Pat) repo = inRepo(Pat->getLocation());
    j += ",\"repo\":" + std::string(repo ? "1" : "0");
    j += ",\"nothrow\":" + std::string(resolveNothrow(FD) ? "1" : "0");
    j += ",\"file\":" + std::to_string(fileId(fileOf(FD->getLocation())));
    j += ",\"line\":" + std::to_string(lineOf(FD->getLocation()));
    if (Pat && Pat != FD) {
      j += ",\"pat\":" + jesc(normPath(fileOf(Pat->getLocation())) + ":" + std::to_string(lineOf(Pat->getLocation())));
    }
    if (auto *MD = dyn_cast<CXXMethodDecl>(FD)) {
      j += ",\"cls\":" + jesc(className(MD->getParent()));
      j += ",\"clsq\":" + jesc(MD->getParent()->getQualifiedNameAsString());
      if (MD->isVirtual()) j += ",\"virt\":1";
      if (MD->isPure()) j += ",\"pure\":1";
      if (MD->isStatic()) j += ",\"static\":1";
      if (MD->isConst()) j += ",\"const\":1";
      if (MD->size_overridden_methods() > 0) {
        j += ",\"ovr\":[";
        bool first = true;
        for (const CXXMethodDecl *O : MD->overridden_methods()) {
          if (!first) j += ",";
          first = false;
          j += std::to_string(symId(O));
        }
        j += "]";
      }
      if (repo && !MD->getParent()->isLambda()) noteRecord(MD->getParent());
    }
    if (FD->isDeleted()) j += ",\"deleted\":1";
    if (FD->isDefaulted()) j += ",\"defaulted\":1";
    if (FD->isImplicit()) j += ",\"implicit\":1";
    if (FD->isNoReturn()) j += ",\"noreturn\":1";
    if (FD->hasAttr<WarnUnusedResultAttr>()) j += ",\"nodiscard\":1";
    j += ",\"ret\":" + std::to_string(typeId(FD->getReturnType()));
    j += ",\"np\":" + std::to_string(FD->getNumParams());
    j += ",\"pt\":[";
    for (unsigned i = 0; i < FD->getNumParams(); ++i) {
      if (i) j += ",";
      j += std::to_string(typeId(FD->getParamDecl(i)->getType()));
    }
    j += "]";
    std::string ta = templArgs(FD);
    if (!ta.empty()) j += ",\"targs\":" + jesc(ta);
    // destructor: member and base destructors (for may-throw propagation)
    if (auto *DD = dyn_cast<CXXDestructorDecl>(FD)) {
      const CXXRecordDecl *R = DD->getParent();
      if (R->hasDefinition()) {
        j += ",\"mdtors\":[";
        bool first = true;
        auto add = [&](QualType T) {
          T = Ctx.getBaseElementType(T);
          if (const CXXRecordDecl *RD = T->getAsCXXRecordDecl()) {
            if (RD->hasDefinition() && !RD->hasTrivialDestructor()) {
              if (CXXDestructorDecl *D2 = RD->getDestructor()) {
                if (!first) j += ",";
                first = false;
                j += std::to_string(symId(D2));
              }
            }
          }
        };
        for (const FieldDecl *F : R->fields()) add(F->getType());
        for (const CXXBaseSpecifier &B : R->bases()) add(B.getType());
        j += "]";
      }
    }
    j += "}";
    syms[id] = j;
    // enqueue definition if it lives in the repository
    const FunctionDecl *D2 = nullptr;
    if (repo && FD->hasBody(D2) && D2 && !D2->isDependentContext()) enqueue(D2);
    return id;
  }

  void enqueue(const FunctionDecl *FD) {
    if (!FD) return;
    if (queued.insert(FD).second) queue.push_back(FD);
  }

  void noteRecord(const CXXRecordDecl *R) {
    if (!R) return;
    R = R->getDefinition();
    if (!R) return;
    if (recordsSeen.insert(R).second) recordQueue.push_back(R);
  }

  // ------------------------------------------------------------------ statement dump
  struct FnCtx {
    std::unordered_map<const Stmt *, int> ids;
    std::unordered_map<const VarDecl *, int> declStmtOfVar;
    int next = 0;
    const FunctionDecl *FD = nullptr;
    int fsym = -1;
  };

  static std::vector<std::string> baseChain(const CXXRecordDecl *R) {
    std::vector<std::string> out;
    std::set<const CXXRecordDecl *> seen;
    std::deque<const CXXRecordDecl *> q;
    if (R && R->hasDefinition()) q.push_back(R->getDefinition());
    while (!q.empty()) {
      const CXXRecordDecl *C = q.front();
      q.pop_front();
      if (!seen.insert(C).second) continue;
      out.push_back(C->getQualifiedNameAsString());
      for (auto &B : C->bases())
        if (auto *BR = B.getType()->getAsCXXRecordDecl())
          if (BR->hasDefinition()) q.push_back(BR->getDefinition());
    }
    return out;
  }

  void noteGlobalAccess(FnCtx &F, const VarDecl *VD, int nodeId, unsigned line) {
    if (!VD->hasGlobalStorage()) return;
    const VarDecl *Def = VD->getDefinition();
    if (!Def) Def = VD;
    bool repo = inRepo(Def->getLocation());
    if (!repo) {
      if (const VarDecl *P = Def->getTemplateInstantiationPattern()) repo = inRepo(P->getLocation());
    }
    if (!repo) return;
    if (globalsSeen.insert(Def->getCanonicalDecl()).second) globalList.push_back(Def);
  }

  std::string apvalueJson(const APValue &V, QualType T, int depth = 0) {
    if (depth > 6) return "null";
    switch (V.getKind()) {
    case APValue::Int: {
      llvm::SmallString<32> s;
      V.getInt().toString(s, 10);
      return std::string(s.str());
    }
    case APValue::Float: {
      llvm::SmallString<32> s;
      V.getFloat().toString(s);
      return jesc(s.str());
    }
    case APValue::Array: {
      std::string o = "[";
      unsigned n = V.getArraySize();
      unsigned ni = V.getArrayInitializedElts();
      QualType ET;
      if (auto *AT = Ctx.getAsArrayType(T)) ET = AT->getElementType();
      if (n > 4096) return "null";
      for (unsigned i = 0; i < n; ++i) {
        if (i) o += ",";
        const APValue &E = i < ni ? V.getArrayInitializedElt(i) : (V.hasArrayFiller() ? V.getArrayFiller() : V);
        if (i >= ni && !V.hasArrayFiller()) {
          o += "null";
          continue;
        }
        o += apvalueJson(E, ET, depth + 1);
      }
      return o + "]";
    }
    case APValue::Struct: {
      std::string o = "{";
      const CXXRecordDecl *R = T.isNull() ? nullptr : T->getAsCXXRecordDecl();
      bool first = true;
      if (R) {
        unsigned bi = 0;
        for (auto &B : R->bases()) {
          if (!first) o += ",";
          first = false;
          o += "\"base" + std::to_string(bi) + "\":" + apvalueJson(V.getStructBase(bi), B.getType(), depth + 1);
          ++bi;
        }
        unsigned fi = 0;
        for (const FieldDecl *F : R->fields()) {
          if (fi >= V.getStructNumFields()) break;
          if (!first) o += ",";
          first = false;
          o += jesc(F->getName()) + ":" + apvalueJson(V.getStructField(fi), F->getType(), depth + 1);
          ++fi;
        }
      }
      return o + "}";
    }
    case APValue::LValue: {
      // string literal pointers are useful (e.g. const char* tables)
      if (auto B = V.getLValueBase()) {
        if (const Expr *E = B.dyn_cast<const Expr *>()) {
          if (auto *SL = dyn_cast<StringLiteral>(E->IgnoreParenImpCasts()))
            if (SL->getCharByteWidth() == 1) return jesc(SL->getBytes());
        }
        if (const ValueDecl *D = B.dyn_cast<const ValueDecl *>()) return "{\"ref\":" + jesc(D->getQualifiedNameAsString()) + "}";
      }
      return "null";
    }
    default:
      return "null";
    }
  }

  // children helper with roles
  void emitChildren(FnCtx &F, std::string &o, const std::vector<std::pair<const char *, const Stmt *>> &kids) {
    o += ",\"c\":[";
    bool first = true;
    std::string roles;
    bool anyRole = false;
    for (auto &kv : kids) {
      if (!kv.second) continue;
      if (!first) {
        o += ",";
        roles += ",";
      }
      first = false;
      o += dumpStmt(F, kv.second);
      roles += "\"";
      roles += kv.first ? kv.first : "";
      roles += "\"";
      if (kv.first && *kv.first) anyRole = true;
    }
    o += "]";
    if (anyRole) o += ",\"r\":[" + roles + "]";
  }

  std::string varDeclJson(FnCtx &F, const VarDecl *VD) {
    std::string d = "{\"n\":" + jesc(VD->getName()) + ",\"d\":" + std::to_string(declId(VD)) + ",\"t\":" + std::to_string(typeId(VD->getType()));
    if (VD->isStaticLocal()) d += ",\"static\":1";
    if (VD->getType()->isReferenceType()) d += ",\"isref\":1";
    if (VD->getType().isConstQualified()) d += ",\"const\":1";
    if (VD->isConstexpr()) d += ",\"constexpr\":1";
    QualType BT = Ctx.getBaseElementType(VD->getType().getNonReferenceType());
    if (!VD->getType()->isReferenceType() && !VD->hasGlobalStorage()) {
      if (const CXXRecordDecl *RD = BT->getAsCXXRecordDecl())
        if (RD->hasDefinition() && !RD->hasTrivialDestructor())
          if (CXXDestructorDecl *DD = RD->getDestructor()) d += ",\"dtor\":" + std::to_string(symId(DD));
    }
    if (VD->hasGlobalStorage()) {
      d += ",\"g\":1";
      noteGlobalAccess(F, VD, -1, 0);
    }
    d += "}";
    return d;
  }

  std::string dumpStmt(FnCtx &F, const Stmt *St) {
    if (!St) return "null";
    int id = F.next++;
    F.ids[St] = id;
    std::string o = "{\"k\":";
    o += jesc(St->getStmtClassName());
    o += ",\"i\":" + std::to_string(id);
    unsigned line = lineOf(St->getBeginLoc());
    o += ",\"l\":" + std::to_string(line);
    {
      // file only when it differs from the enclosing function's file
      std::string sf = fileOf(St->getBeginLoc());
      if (!sf.empty() && F.FD && normPath(sf) != normPath(fileOf(F.FD->getLocation()))) o += ",\"f\":" + std::to_string(fileId(sf));
    }
    const Expr *E = dyn_cast<Expr>(St);
    if (E) {
      o += ",\"t\":" + std::to_string(typeId(E->getType()));
      if (E->isLValue()) o += ",\"lv\":1";
      if (!E->isValueDependent() && !E->isTypeDependent() && E->isPRValue() && !E->getType().isNull()) {
        QualType T = E->getType();
        if (T->isIntegralOrEnumerationType()) {
          Expr::EvalResult R;
          if (E->EvaluateAsInt(R, Ctx, Expr::SE_NoSideEffects)) {
            llvm::SmallString<32> s;
            R.Val.getInt().toString(s, 10);
            o += ",\"cv\":";
            o += s.str();
          }
        } else if (T->isRealFloatingType()) {
          if (isa<FloatingLiteral>(E)) {
            llvm::SmallString<32> s;
            cast<FloatingLiteral>(E)->getValue().toString(s);
            o += ",\"fv\":" + jesc(s.str());
          }
        }
      }
    }

    std::vector<std::pair<const char *, const Stmt *>> kids;
    bool customKids = false;

    if (auto *DS = dyn_cast<DeclStmt>(St)) {
      o += ",\"decls\":[";
      bool first = true;
      for (const Decl *D : DS->decls()) {
        if (auto *VD = dyn_cast<VarDecl>(D)) {
          if (!first) o += ",";
          first = false;
          F.declStmtOfVar[VD] = id;
          o += varDeclJson(F, VD);
          if (auto *DD = dyn_cast<DecompositionDecl>(VD)) {
            (void)DD;
          }
          if (VD->hasInit()) kids.push_back({"init", VD->getInit()});
        }
      }
      o += "]";
      customKids = true;
    } else if (auto *IS = dyn_cast<IfStmt>(St)) {
      if (IS->isConstexpr()) o += ",\"cx\":1";
      kids = {{"init", IS->getInit()}, {"var", IS->getConditionVariableDeclStmt()}, {"cond", IS->getCond()}, {"then", IS->getThen()}, {"else", IS->getElse()}};
      customKids = true;
    } else if (auto *FS = dyn_cast<ForStmt>(St)) {
      kids = {{"init", FS->getInit()}, {"var", FS->getConditionVariableDeclStmt()}, {"cond", FS->getCond()}, {"inc", FS->getInc()}, {"body", FS->getBody()}};
      customKids = true;
    } else if (auto *WS = dyn_cast<WhileStmt>(St)) {
      kids = {{"var", WS->getConditionVariableDeclStmt()}, {"cond", WS->getCond()}, {"body", WS->getBody()}};
      customKids = true;
    } else if (auto *DoS = dyn_cast<DoStmt>(St)) {
      kids = {{"body", DoS->getBody()}, {"cond", DoS->getCond()}};
      customKids = true;
    } else if (auto *RS = dyn_cast<CXXForRangeStmt>(St)) {
      kids = {{"init", RS->getInit()}, {"range", RS->getRangeStmt()}, {"begin", RS->getBeginStmt()}, {"end", RS->getEndStmt()},
              {"cond", RS->getCond()}, {"inc", RS->getInc()}, {"loopvar", RS->getLoopVarStmt()}, {"body", RS->getBody()}};
      customKids = true;
    } else if (auto *SS = dyn_cast<SwitchStmt>(St)) {
      kids = {{"init", SS->getInit()}, {"var", SS->getConditionVariableDeclStmt()}, {"cond", SS->getCond()}, {"body", SS->getBody()}};
      customKids = true;
    } else if (auto *CS = dyn_cast<CaseStmt>(St)) {
      kids = {{"lhs", CS->getLHS()}, {"rhs", CS->getRHS()}, {"sub", CS->getSubStmt()}};
      customKids = true;
    } else if (auto *DfS = dyn_cast<DefaultStmt>(St)) {
      kids = {{"sub", DfS->getSubStmt()}};
      customKids = true;
    } else if (auto *Ret = dyn_cast<ReturnStmt>(St)) {
      kids = {{"value", Ret->getRetValue()}};
      customKids = true;
    } else if (auto *TS = dyn_cast<CXXTryStmt>(St)) {
      kids.push_back({"block", TS->getTryBlock()});
      for (unsigned i = 0; i < TS->getNumHandlers(); ++i) kids.push_back({"handler", TS->getHandler(i)});
      customKids = true;
    } else if (auto *CS2 = dyn_cast<CXXCatchStmt>(St)) {
      QualType CT = CS2->getCaughtType();
      if (CT.isNull())
        o += ",\"ct\":null";
      else {
        QualType NT = CT.getNonReferenceType().getUnqualifiedType();
        o += ",\"ct\":" + jesc(NT.getCanonicalType().getAsString(PP));
        if (auto *RD = NT->getAsCXXRecordDecl()) o += ",\"ctq\":" + jesc(RD->getQualifiedNameAsString());
        if (const VarDecl *EV = CS2->getExceptionDecl()) o += ",\"cd\":" + std::to_string(declId(EV));
      }
      kids = {{"body", CS2->getHandlerBlock()}};
      customKids = true;
    } else if (auto *TE = dyn_cast<CXXThrowExpr>(St)) {
      if (const Expr *Sub = TE->getSubExpr()) {
        QualType TT = Sub->getType().getNonReferenceType().getUnqualifiedType();
        o += ",\"tt\":" + jesc(TT.getCanonicalType().getAsString(PP));
        if (auto *RD = TT->getAsCXXRecordDecl()) {
          o += ",\"tb\":[";
          bool first = true;
          for (auto &b : baseChain(RD)) {
            if (!first) o += ",";
            first = false;
            o += jesc(b);
          }
          o += "]";
        }
      } else
        o += ",\"rethrow\":1";
    } else if (auto *BO = dyn_cast<BinaryOperator>(St)) {
      o += ",\"op\":" + jesc(BO->getOpcodeStr());
      if (auto *CAO = dyn_cast<CompoundAssignOperator>(St)) {
        o += ",\"cat\":" + std::to_string(typeId(CAO->getComputationResultType()));
      }
    } else if (auto *UO = dyn_cast<UnaryOperator>(St)) {
      o += ",\"op\":" + jesc(UnaryOperator::getOpcodeStr(UO->getOpcode()));
      if (UO->isPostfix()) o += ",\"post\":1";
    } else if (auto *CE = dyn_cast<CastExpr>(St)) {
      o += ",\"ck\":" + jesc(CE->getCastKindName());
      if (auto *ECE = dyn_cast<ExplicitCastExpr>(St)) {
        (void)ECE;
        o += ",\"expl\":1";
      }
      if (const FunctionDecl *CF = dyn_cast_or_null<FunctionDecl>(CE->getConversionFunction())) o += ",\"fn\":" + std::to_string(symId(CF));
    } else if (auto *DRE = dyn_cast<DeclRefExpr>(St)) {
      const ValueDecl *VD = DRE->getDecl();
      o += ",\"n\":" + jesc(VD->getDeclName().getAsString());
      o += ",\"d\":" + std::to_string(declId(VD));
      o += ",\"dk\":" + jesc(VD->getDeclKindName());
      if (auto *Var = dyn_cast<VarDecl>(VD)) {
        if (Var->hasGlobalStorage()) {
          o += ",\"g\":1,\"q\":" + jesc(Var->getQualifiedNameAsString());
          noteGlobalAccess(F, Var, id, line);
        }
        if (Var->getType()->isReferenceType()) o += ",\"isref\":1";
      } else if (auto *FDr = dyn_cast<FunctionDecl>(VD)) {
        o += ",\"fn\":" + std::to_string(symId(FDr));
      } else if (isa<EnumConstantDecl>(VD)) {
        o += ",\"q\":" + jesc(VD->getQualifiedNameAsString());
      } else if (auto *BD = dyn_cast<BindingDecl>(VD)) {
        (void)BD;
      }
    } else if (auto *ME = dyn_cast<MemberExpr>(St)) {
      const ValueDecl *MD = ME->getMemberDecl();
      o += ",\"m\":" + jesc(MD->getDeclName().getAsString());
      o += ",\"d\":" + std::to_string(declId(MD));
      o += ",\"dk\":" + jesc(MD->getDeclKindName());
      if (ME->isArrow()) o += ",\"arrow\":1";
      if (auto *FDm = dyn_cast<FunctionDecl>(MD)) o += ",\"fn\":" + std::to_string(symId(FDm));
      if (auto *Var = dyn_cast<VarDecl>(MD)) {
        if (Var->hasGlobalStorage()) {
          o += ",\"g\":1,\"q\":" + jesc(Var->getQualifiedNameAsString());
          noteGlobalAccess(F, Var, id, line);
        }
      }
      if (auto *FDf = dyn_cast<FieldDecl>(MD)) {
        if (FDf->isMutable()) o += ",\"mutable\":1";
        o += ",\"cls\":" + jesc(FDf->getParent()->getQualifiedNameAsString());
      }
    } else if (auto *CallE = dyn_cast<CallExpr>(St)) {
      const FunctionDecl *Callee = CallE->getDirectCallee();
      if (Callee) {
        bool virt = false;
        if (auto *MCE = dyn_cast<CXXMemberCallExpr>(CallE)) {
          if (auto *MD = dyn_cast<CXXMethodDecl>(Callee)) {
            if (MD->isVirtual()) {
              const auto *MEx = dyn_cast<MemberExpr>(MCE->getCallee()->IgnoreParens());
              bool qualified = MEx && MEx->hasQualifier();
              if (!qualified) {
                const Expr *Base = MCE->getImplicitObjectArgument();
                const CXXMethodDecl *Dev = Base ? MD->getDevirtualizedMethod(Base, false) : nullptr;
                if (Dev)
                  Callee = Dev;
                else
                  virt = true;
              }
            }
          }
        }
        o += ",\"fn\":" + std::to_string(symId(Callee));
        if (virt) o += ",\"vcall\":1";
      } else {
        o += ",\"fn\":-1";
      }
      if (auto *OCE = dyn_cast<CXXOperatorCallExpr>(CallE)) o += ",\"op\":" + jesc(getOperatorSpelling(OCE->getOperator()));
    } else if (auto *CCE = dyn_cast<CXXConstructExpr>(St)) {
      o += ",\"fn\":" + std::to_string(symId(CCE->getConstructor()));
      if (CCE->isElidable()) o += ",\"elide\":1";
    } else if (auto *BTE = dyn_cast<CXXBindTemporaryExpr>(St)) {
      if (const CXXDestructorDecl *DD = BTE->getTemporary()->getDestructor()) o += ",\"fn\":" + std::to_string(symId(DD));
    } else if (auto *NE = dyn_cast<CXXNewExpr>(St)) {
      o += ",\"nt\":" + std::to_string(typeId(NE->getAllocatedType()));
      if (NE->getOperatorNew()) o += ",\"fn\":" + std::to_string(symId(NE->getOperatorNew()));
      if (NE->isArray()) o += ",\"arr\":1";
    } else if (auto *DE = dyn_cast<CXXDeleteExpr>(St)) {
      QualType DT = DE->getDestroyedType();
      o += ",\"dt\":" + std::to_string(typeId(DT));
      if (!DT.isNull())
        if (auto *RD = DT->getAsCXXRecordDecl())
          if (RD->hasDefinition())
            if (CXXDestructorDecl *DD = RD->getDestructor()) {
              o += ",\"fn\":" + std::to_string(symId(DD));
              if (DD->isVirtual()) o += ",\"vcall\":1";
            }
    } else if (auto *LE = dyn_cast<LambdaExpr>(St)) {
      const CXXRecordDecl *LR = LE->getLambdaClass();
      o += ",\"lamcls\":" + jesc(className(LR));
      if (CXXMethodDecl *Op = LE->getCallOperator()) {
        if (!Op->isDependentContext() && !LE->isGenericLambda()) o += ",\"fn\":" + std::to_string(symId(Op));
      }
      if (FunctionTemplateDecl *FT = LE->getDependentCallOperator()) {
        o += ",\"generic\":1";
        (void)FT;
      }
      // capture initialisers are the children
      for (const Expr *CI : LE->capture_inits()) kids.push_back({"cap", CI});
      customKids = true;
    } else if (auto *SL = dyn_cast<StringLiteral>(St)) {
      if (SL->getCharByteWidth() == 1 && SL->getLength() <= 200) o += ",\"s\":" + jesc(SL->getBytes());
      o += ",\"slen\":" + std::to_string(SL->getLength());
    } else if (auto *DAE = dyn_cast<CXXDefaultArgExpr>(St)) {
      kids.push_back({"defarg", DAE->getExpr()});
      customKids = true;
    } else if (auto *DIE = dyn_cast<CXXDefaultInitExpr>(St)) {
      kids.push_back({"definit", DIE->getExpr()});
      customKids = true;
    } else if (auto *UETT = dyn_cast<UnaryExprOrTypeTraitExpr>(St)) {
      (void)UETT;
      customKids = true; // no children of interest
    } else if (auto *TOE = dyn_cast<CXXTemporaryObjectExpr>(St)) {
      (void)TOE;
    } else if (auto *ILE = dyn_cast<InitListExpr>(St)) {
      (void)ILE;
    } else if (auto *OVE = dyn_cast<OpaqueValueExpr>(St)) {
      if (OVE->getSourceExpr() && !F.ids.count(OVE->getSourceExpr())) kids.push_back({"src", OVE->getSourceExpr()});
      customKids = true;
    } else if (auto *STE = dyn_cast<SubstNonTypeTemplateParmExpr>(St)) {
      (void)STE;
    } else if (auto *UL = dyn_cast<UnresolvedLookupExpr>(St)) {
      o += ",\"n\":" + jesc(UL->getName().getAsString());
    } else if (auto *DSM = dyn_cast<CXXDependentScopeMemberExpr>(St)) {
      o += ",\"m\":" + jesc(DSM->getMember().getAsString());
    } else if (auto *UM = dyn_cast<UnresolvedMemberExpr>(St)) {
      o += ",\"m\":" + jesc(UM->getMemberName().getAsString());
    } else if (auto *DSD = dyn_cast<DependentScopeDeclRefExpr>(St)) {
      o += ",\"n\":" + jesc(DSD->getDeclName().getAsString());
    } else if (auto *PE = dyn_cast<CXXPseudoDestructorExpr>(St)) {
      (void)PE;
    }

    if (customKids) {
      emitChildren(F, o, kids);
    } else {
      o += ",\"c\":[";
      bool first = true;
      for (const Stmt *C : St->children()) {
        if (!C) continue;
        if (!first) o += ",";
        first = false;
        o += dumpStmt(F, C);
      }
      o += "]";
    }
    o += "}";
    return o;
  }

  // ------------------------------------------------------------------ CFG dump
  std::string dumpCFG(FnCtx &F, const FunctionDecl *FD) {
    CFG::BuildOptions BO;
    BO.setAllAlwaysAdd();
    BO.AddImplicitDtors = true;
    BO.AddTemporaryDtors = false;
    BO.AddInitializers = true;
    BO.AddEHEdges = false;
    BO.PruneTriviallyFalseEdges = true;
    std::unique_ptr<CFG> G = CFG::buildCFG(FD, FD->getBody(), &Ctx, BO);
    if (!G) return "null";
    std::string o = "{\"entry\":" + std::to_string(G->getEntry().getBlockID()) + ",\"exit\":" + std::to_string(G->getExit().getBlockID()) + ",\"blocks\":[";
    bool firstB = true;
    for (const CFGBlock *B : *G) {
      if (!firstB) o += ",";
      firstB = false;
      o += "{\"id\":" + std::to_string(B->getBlockID());
      o += ",\"el\":[";
      bool first = true;
      for (const CFGElement &El : *B) {
        std::string e;
        if (auto CS = El.getAs<CFGStmt>()) {
          const Stmt *St = CS->getStmt();
          auto it = F.ids.find(St);
          if (it != F.ids.end())
            e = std::to_string(it->second);
          else if (auto *DS = dyn_cast<DeclStmt>(St)) {
            // synthesized single-decl DeclStmt: map through its variable
            int found = -1;
            for (const Decl *D : DS->decls())
              if (auto *VD = dyn_cast<VarDecl>(D)) {
                auto jt = F.declStmtOfVar.find(VD);
                if (jt != F.declStmtOfVar.end()) found = jt->second;
              }
            if (found >= 0)
              e = "{\"k\":\"DeclOf\",\"i\":" + std::to_string(found) + ",\"d\":" +
                  std::to_string(declId(cast<VarDecl>(*DS->decl_begin()))) + "}";
            else
              e = "{\"k\":\"UnmappedDecl\"}";
          } else {
            e = "{\"k\":\"Unmapped\",\"sk\":" + jesc(St->getStmtClassName()) + ",\"l\":" + std::to_string(lineOf(St->getBeginLoc())) + "}";
          }
        } else if (auto AD = El.getAs<CFGAutomaticObjDtor>()) {
          const VarDecl *VD = AD->getVarDecl();
          e = "{\"k\":\"AutoDtor\",\"d\":" + std::to_string(declId(VD));
          QualType T = Ctx.getBaseElementType(VD->getType().getNonReferenceType());
          if (auto *RD = T->getAsCXXRecordDecl())
            if (RD->hasDefinition())
              if (CXXDestructorDecl *DD = RD->getDestructor()) e += ",\"fn\":" + std::to_string(symId(DD));
          e += "}";
        } else if (auto Init = El.getAs<CFGInitializer>()) {
          const CXXCtorInitializer *I = Init->getInitializer();
          auto it = F.ids.find(I->getInit());
          e = "{\"k\":\"Init\",\"i\":" + std::to_string(it != F.ids.end() ? it->second : -1) + "}";
        } else if (El.getAs<CFGBaseDtor>() || El.getAs<CFGMemberDtor>()) {
          e = "{\"k\":\"ImplicitDtor\"}";
        } else {
          e = "{\"k\":\"Other\"}";
        }
        if (!first) o += ",";
        first = false;
        o += e;
      }
      o += "]";
      if (const Stmt *T = B->getTerminatorStmt()) {
        auto it = F.ids.find(T);
        o += ",\"term\":" + std::to_string(it != F.ids.end() ? it->second : -1);
        o += ",\"tk\":" + jesc(T->getStmtClassName());
      }
      if (const Stmt *TC = B->getTerminatorCondition()) {
        auto it = F.ids.find(TC);
        if (it != F.ids.end()) o += ",\"tc\":" + std::to_string(it->second);
      }
      if (const Stmt *L = B->getLabel()) {
        auto it = F.ids.find(L);
        if (it != F.ids.end()) o += ",\"label\":" + std::to_string(it->second);
      }
      if (B->hasNoReturnElement()) o += ",\"noret\":1";
      o += ",\"succ\":[";
      first = true;
      for (auto SI = B->succ_begin(); SI != B->succ_end(); ++SI) {
        if (!first) o += ",";
        first = false;
        if (const CFGBlock *SB = SI->getReachableBlock())
          o += std::to_string(SB->getBlockID());
        else if (const CFGBlock *UB = SI->getPossiblyUnreachableBlock())
          o += "{\"u\":" + std::to_string(UB->getBlockID()) + "}";
        else
          o += "null";
      }
      o += "]}";
    }
    o += "]}";
    return o;
  }

  // ------------------------------------------------------------------ function dump
  void dumpFunction(const FunctionDecl *FD) {
    FnCtx F;
    F.FD = FD;
    int sid = symId(FD);
    F.fsym = sid;
    std::string o = "{\"sym\":" + std::to_string(sid);
    o += ",\"end\":" + std::to_string(lineOf(FD->getEndLoc()));
    o += ",\"params\":[";
    for (unsigned i = 0; i < FD->getNumParams(); ++i) {
      const ParmVarDecl *P = FD->getParamDecl(i);
      if (i) o += ",";
      o += "{\"n\":" + jesc(P->getName()) + ",\"d\":" + std::to_string(declId(P)) + ",\"t\":" + std::to_string(typeId(P->getType())) + "}";
    }
    o += "]";
    if (auto *CD = dyn_cast<CXXConstructorDecl>(FD)) {
      o += ",\"inits\":[";
      bool first = true;
      for (const CXXCtorInitializer *I : CD->inits()) {
        if (!first) o += ",";
        first = false;
        o += "{";
        if (I->isAnyMemberInitializer())
          o += "\"field\":" + jesc(I->getAnyMember()->getName()) + ",\"d\":" + std::to_string(declId(I->getAnyMember()));
        else if (I->isBaseInitializer())
          o += "\"base\":" + jesc(QualType(I->getBaseClass(), 0).getCanonicalType().getAsString(PP));
        else
          o += "\"delegating\":1";
        if (I->isWritten()) o += ",\"written\":1";
        o += ",\"l\":" + std::to_string(lineOf(I->getSourceLocation()));
        o += ",\"e\":" + dumpStmt(F, I->getInit());
        o += "}";
      }
      o += "]";
    }
    const Stmt *Body = FD->getBody();
    o += ",\"body\":" + dumpStmt(F, Body);
    o += ",\"cfg\":" + dumpCFG(F, FD);
    o += "}";
    funcJson.push_back(std::move(o));
  }

  // ------------------------------------------------------------------ records / globals
  std::string recordJson(const CXXRecordDecl *R) {
    std::string o = "{\"name\":" + jesc(className(R)) + ",\"q\":" + jesc(R->getQualifiedNameAsString());
    o += ",\"file\":" + std::to_string(fileId(fileOf(R->getLocation()))) + ",\"line\":" + std::to_string(lineOf(R->getLocation()));
    o += ",\"repo\":" + std::string(inRepo(R->getLocation()) ? "1" : "0");
    if (R->isPolymorphic()) o += ",\"poly\":1";
    if (R->hasAttr<FinalAttr>()) o += ",\"final\":1";
    if (R->isAbstract()) o += ",\"abstract\":1";
    o += ",\"fields\":[";
    bool first = true;
    for (const FieldDecl *F : R->fields()) {
      if (!first) o += ",";
      first = false;
      o += "{\"n\":" + jesc(F->getName()) + ",\"t\":" + std::to_string(typeId(F->getType())) + ",\"d\":" + std::to_string(declId(F));
      if (F->isMutable()) o += ",\"mutable\":1";
      if (F->getType()->isPointerType()) o += ",\"ptr\":1";
      if (F->getType().isConstQualified()) o += ",\"const\":1";
      o += "}";
    }
    o += "],\"bases\":[";
    first = true;
    for (auto &B : R->bases()) {
      if (!first) o += ",";
      first = false;
      o += jesc(B.getType().getCanonicalType().getAsString(PP));
    }
    o += "]";
    if (const CXXDestructorDecl *DD = R->getDestructor()) {
      o += ",\"dtor\":" + std::to_string(symId(DD));
      if (DD->isUserProvided()) o += ",\"userdtor\":1";
    }
    // special members
    auto smf = [&](const char *key, bool has, bool deleted) {
      o += std::string(",\"") + key + "\":" + jesc(!has ? "none" : deleted ? "deleted" : "ok");
    };
    bool cc = false, ccDel = false, mc = false, mcDel = false, ca = false, caDel = false, ma = false, maDel = false;
    for (const CXXConstructorDecl *C : R->ctors()) {
      if (C->isCopyConstructor()) { cc = true; ccDel = C->isDeleted(); }
      if (C->isMoveConstructor()) { mc = true; mcDel = C->isDeleted(); }
    }
    for (const CXXMethodDecl *M : R->methods()) {
      if (M->isCopyAssignmentOperator()) { ca = true; caDel = M->isDeleted(); }
      if (M->isMoveAssignmentOperator()) { ma = true; maDel = M->isDeleted(); }
    }
    smf("copyctor", cc, ccDel);
    smf("movector", mc, mcDel);
    smf("copyassign", ca, caDel);
    smf("moveassign", ma, maDel);
    o += ",\"methods\":[";
    first = true;
    for (const CXXMethodDecl *M : R->methods()) {
      if (M->isImplicit()) continue;
      if (!first) o += ",";
      first = false;
      o += std::to_string(symId(M));
    }
    o += "]}";
    return o;
  }

  std::string globalJson(const VarDecl *VD) {
    std::string o = "{\"d\":" + std::to_string(declId(VD)) + ",\"q\":" + jesc(VD->getQualifiedNameAsString());
    o += ",\"n\":" + jesc(VD->getName());
    o += ",\"t\":" + std::to_string(typeId(VD->getType()));
    SourceLocation L = VD->getLocation();
    o += ",\"file\":" + std::to_string(fileId(fileOf(L))) + ",\"line\":" + std::to_string(lineOf(L));
    if (const VarDecl *P = VD->getTemplateInstantiationPattern())
      o += ",\"pat\":" + jesc(normPath(fileOf(P->getLocation())) + ":" + std::to_string(lineOf(P->getLocation())));
    QualType T = VD->getType();
    bool isConst = T.isConstQualified() || (T->isArrayType() && Ctx.getBaseElementType(T).isConstQualified());
    if (T->isReferenceType()) isConst = T.getNonReferenceType().isConstQualified();
    o += ",\"const\":" + std::string(isConst ? "1" : "0");
    if (T->isReferenceType()) o += ",\"isref\":1";
    if (VD->isConstexpr()) o += ",\"constexpr\":1";
    if (VD->getTLSKind() != VarDecl::TLS_None) o += ",\"tls\":1";
    if (VD->isStaticLocal()) {
      o += ",\"local\":1";
      if (auto *PF = dyn_cast_or_null<FunctionDecl>(VD->getParentFunctionOrMethod())) o += ",\"infn\":" + std::to_string(symId(PF));
    }
    if (VD->isStaticDataMember()) o += ",\"member\":1";
    if (VD->isInline()) o += ",\"inline\":1";
    const VarDecl *Def = VD->getDefinition();
    if (Def && Def->hasInit()) {
      bool ci = false;
      if (!Def->getInit()->isValueDependent()) ci = Def->hasConstantInitialization();
      o += ",\"constinit\":" + std::string(ci ? "1" : "0");
      if (ci) {
        if (const APValue *V = Def->evaluateValue()) {
          std::string vj = apvalueJson(*V, Def->getType());
          if (vj.size() < 2000000) o += ",\"val\":" + vj;
        }
      }
    } else {
      // no initialiser: zero-initialised statics are constant-initialised
      bool triv = true;
      if (auto *RD = Ctx.getBaseElementType(T)->getAsCXXRecordDecl()) triv = RD->hasDefinition() && RD->hasTrivialDefaultConstructor();
      o += ",\"noinit\":1,\"constinit\":" + std::string(triv ? "1" : "0");
    }
    {
      // readable unique name: static locals are qualified by their function, templates keep their arguments
      std::string qn;
      if (VD->isStaticLocal()) {
        if (auto *PF = dyn_cast_or_null<FunctionDecl>(VD->getParentFunctionOrMethod())) qn = functionKey(PF) + "::";
        qn += VD->getName().str();
      } else {
        qn = diagName(VD);
      }
      o += ",\"qn\":" + jesc(qn);
    }
    if (Def && Def->hasInit() && !Def->getInit()->isValueDependent()) {
      FnCtx F;
      F.FD = nullptr;
      o += ",\"init\":" + dumpStmt(F, Def->getInit());
    }
    bool mutableMember = false;
    if (auto *RD = Ctx.getBaseElementType(T.getNonReferenceType())->getAsCXXRecordDecl())
      if (RD->hasDefinition()) mutableMember = RD->hasMutableFields();
    if (mutableMember) o += ",\"hasmutable\":1";
    o += "}";
    return o;
  }
};

// ---------------------------------------------------------------- visitor that seeds the queue
class SeedVisitor : public RecursiveASTVisitor<SeedVisitor> {
public:
  explicit SeedVisitor(Dumper &D) : D(D) {}
  bool shouldVisitTemplateInstantiations() const { return true; }
  bool shouldVisitImplicitCode() const { return true; }
  bool shouldVisitLambdaBody() const { return true; }

  bool VisitFunctionDecl(FunctionDecl *FD) {
    if (!FD->doesThisDeclarationHaveABody()) return true;
    if (FD->isDependentContext()) return true;
    const FunctionDecl *Pat = FD->getTemplateInstantiationPattern();
    bool repo = D.inRepo(FD->getLocation()) || (Pat && D.inRepo(Pat->getLocation()));
    if (!repo) return true;
    D.symId(FD);
    D.enqueue(FD);
    return true;
  }
  bool VisitVarDecl(VarDecl *VD) {
    if (!VD->hasGlobalStorage()) return true;
    if (VD->isInvalidDecl()) return true;
    if (isa<ParmVarDecl>(VD)) return true;
    if (VD->getDeclContext()->isDependentContext()) return true;
    if (VD->getType()->isDependentType()) return true;
    if (isa<VarTemplatePartialSpecializationDecl>(VD)) return true;
    if (VD->getDescribedVarTemplate()) return true;
    const VarDecl *Def = VD->getDefinition();
    if (!Def) Def = VD;
    bool repo = D.inRepo(Def->getLocation());
    if (!repo)
      if (const VarDecl *P = Def->getTemplateInstantiationPattern()) repo = D.inRepo(P->getLocation());
    if (!repo) return true;
    if (D.globalsSeen.insert(Def->getCanonicalDecl()).second) D.globalList.push_back(Def);
    return true;
  }
  bool VisitEnumDecl(EnumDecl *E) {
    if (!E->isThisDeclarationADefinition()) return true;
    if (E->isDependentContext()) return true;
    if (!D.inRepo(E->getLocation())) return true;
    std::string o = "{\"q\":" + jesc(E->getQualifiedNameAsString());
    o += ",\"file\":" + std::to_string(D.fileId(D.fileOf(E->getLocation()))) + ",\"line\":" + std::to_string(D.lineOf(E->getLocation()));
    o += ",\"items\":[";
    bool first = true;
    for (const EnumConstantDecl *C : E->enumerators()) {
      if (!first) o += ",";
      first = false;
      llvm::SmallString<32> v;
      C->getInitVal().toString(v, 10);
      o += "[" + jesc(C->getName()) + "," + std::string(v.str()) + "]";
    }
    o += "]}";
    D.enumJson.push_back(o);
    return true;
  }
  bool VisitCXXRecordDecl(CXXRecordDecl *R) {
    if (!R->isThisDeclarationADefinition()) return true;
    if (R->isDependentContext()) return true;
    if (R->isLambda()) return true;
    if (!D.inRepo(R->getLocation())) return true;
    D.noteRecord(R);
    return true;
  }

private:
  Dumper &D;
};

class Consumer : public ASTConsumer {
public:
  explicit Consumer(CompilerInstance &CI) : CI(CI) {}
  void HandleTranslationUnit(ASTContext &Ctx) override {
    if (Ctx.getDiagnostics().hasErrorOccurred()) {
      llvm::errs() << "bsfacts: translation unit has errors, no facts written\n";
      return;
    }
    Dumper D(Ctx, CI.getSema());
    SeedVisitor V(D);
    V.TraverseDecl(Ctx.getTranslationUnitDecl());
    while (!D.queue.empty()) {
      const FunctionDecl *FD = D.queue.front();
      D.queue.pop_front();
      D.dumpFunction(FD);
    }
    std::vector<std::string> recs;
    for (size_t i = 0; i < D.recordQueue.size(); ++i) recs.push_back(D.recordJson(D.recordQueue[i]));
    // record dump may have discovered more functions (methods) - dump them too
    while (!D.queue.empty()) {
      const FunctionDecl *FD = D.queue.front();
      D.queue.pop_front();
      D.dumpFunction(FD);
    }
    std::vector<std::string> globs;
    for (size_t i = 0; i < D.globalList.size(); ++i) globs.push_back(D.globalJson(D.globalList[i]));
    while (!D.queue.empty()) {
      const FunctionDecl *FD = D.queue.front();
      D.queue.pop_front();
      D.dumpFunction(FD);
      // bodies may reference further statics
      for (size_t i = globs.size(); i < D.globalList.size(); ++i) globs.push_back(D.globalJson(D.globalList[i]));
    }
    for (size_t i = globs.size(); i < D.globalList.size(); ++i) globs.push_back(D.globalJson(D.globalList[i]));

    std::error_code EC;
    llvm::raw_fd_ostream OS(gOutPath, EC);
    if (EC) {
      llvm::errs() << "bsfacts: cannot write " << gOutPath << "\n";
      return;
    }
    OS << "{\"version\":1,\n\"types\":[";
    for (size_t i = 0; i < D.types.size(); ++i) OS << (i ? "," : "") << jesc(D.types[i]);
    OS << "],\n\"files\":[";
    for (size_t i = 0; i < D.files.size(); ++i) OS << (i ? "," : "") << jesc(D.files[i]);
    OS << "],\n\"syms\":[\n";
    for (size_t i = 0; i < D.syms.size(); ++i) OS << (i ? ",\n" : "") << D.syms[i];
    OS << "],\n\"functions\":[\n";
    for (size_t i = 0; i < D.funcJson.size(); ++i) OS << (i ? ",\n" : "") << D.funcJson[i];
    OS << "],\n\"records\":[\n";
    for (size_t i = 0; i < recs.size(); ++i) OS << (i ? ",\n" : "") << recs[i];
    OS << "],\n\"globals\":[\n";
    for (size_t i = 0; i < globs.size(); ++i) OS << (i ? ",\n" : "") << globs[i];
    OS << "],\n\"enums\":[\n";
    for (size_t i = 0; i < D.enumJson.size(); ++i) OS << (i ? ",\n" : "") << D.enumJson[i];
    OS << "]}\n";
  }

private:
  CompilerInstance &CI;
};

class Action : public ASTFrontendAction {
public:
  std::unique_ptr<ASTConsumer> CreateASTConsumer(CompilerInstance &CI, StringRef) override {
    return std::make_unique<Consumer>(CI);
  }
};

} // namespace

int main(int argc, const char **argv) {
  if (argc < 5) {
    llvm::errs() << "usage: bsfacts <out.json> <prefix[:prefix...]> <source> -- <flags>\n";
    return 2;
  }
  gOutPath = argv[1];
  {
    std::string p = argv[2];
    size_t s = 0;
    while (s <= p.size()) {
      size_t e = p.find(':', s);
      if (e == std::string::npos) e = p.size();
      if (e > s) gPrefixes.push_back(p.substr(s, e - s));
      s = e + 1;
    }
  }
  std::string src = argv[3];
  std::vector<std::string> flags;
  int i = 4;
  if (std::string(argv[i]) == "--") ++i;
  for (; i < argc; ++i) flags.push_back(argv[i]);
  clang::tooling::FixedCompilationDatabase DB(".", flags);
  clang::tooling::ClangTool Tool(DB, {src});
  int rc = Tool.run(clang::tooling::newFrontendActionFactory<Action>().get());
  return rc;
}
