#!/bin/bash
# Runs every stored seed against the checks named in its meta.json ("detected_by") and prints one line per seed.
# usage: tools/try_all_seeds.sh        (needs a clean /repo; applies and reverts each patch)
cd /verif || exit 9
for d in seeded/*/; do
  id=$(basename $d)
  props=$(python3 -c "
import json,re,sys
m=json.load(open('$d/meta.json'))
print(' '.join(sorted(set(re.findall(r'\bC\d\d\b', m.get('detected_by',''))))))")
  [ -z "$props" ] && props=${id%%_*}
  out=$(tools/try_seed.sh $id $props 2>&1)
  hit=$(echo "$out" | grep -c "rc=1")
  echo "$id: checks [$props] -> $(echo "$out" | grep -E 'rc=' | tr -s ' ' | tr '\n' ';')  $([ $hit -gt 0 ] && echo DETECTED || echo MISSED)"
done
