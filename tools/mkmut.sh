#!/bin/bash
# usage: tools/mkmut.sh <rule>_<what>   - stores the current diff of the scratch worktree /tmp/mut as a mutant and reverts the worktree
set -e
[ -n "$(git -C /tmp/mut diff)" ] || { echo "no change in /tmp/mut"; exit 1; }
git -C /tmp/mut diff > /verif/selftest/mutants/$1.diff
git -C /tmp/mut checkout -- .
echo "stored $1 ($(grep -c '^[-+][^-+]' /verif/selftest/mutants/$1.diff) changed lines)"
