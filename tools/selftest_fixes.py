#!/usr/bin/env python3
"""For every `fixed` entry of known_findings.json: reverse-apply that /repo commit on the current tree (skipped when it no longer
reverse-applies cleanly), run the quick check of the entry's property and report whether the recorded finding key is reported again.
Never commits anything; /repo is restored after each step. Usage: tools/selftest_fixes.py [property ...]"""
import json
import os
import subprocess
import sys

VERIF = os.path.dirname(os.path.dirname(os.path.abspath(__file__)))


def sh(cmd, **kw):
    return subprocess.run(cmd, shell=True, stdout=subprocess.PIPE, stderr=subprocess.STDOUT, text=True, **kw)


def main():
    want = set(a.upper() for a in sys.argv[1:])
    fixed = json.load(open(os.path.join(VERIF, 'known_findings.json')))['fixed']
    if sh('git -C /repo status --porcelain --untracked-files=no').stdout.strip():
        print('repo not clean')
        return 2
    rows = []
    for e in fixed:
        if want and e['property'] not in want:
            continue
        c = e['commit']
        r = sh('git -C /repo show %s -- include src | git -C /repo apply -R --check' % c)
        if r.returncode != 0:
            rows.append((e['property'], c, 'skipped (later commits touched the same lines)', e['key']))
            continue
        sh('git -C /repo show %s -- include src | git -C /repo apply -R' % c)
        out = sh('cd %s && python3 bsverify.py --property %s --tier quick' % (VERIF, e['property'])).stdout
        sh('git -C /repo checkout -- .')
        sh('git -C %s checkout -- evidence' % VERIF)
        hit = ('violated: ' + e['key']) in out
        anyv = out.count('\nVIOLATION')
        rows.append((e['property'], c, 'REPORTED AGAIN' if hit else ('other violation(s): %d' % anyv if anyv else 'NOT REPORTED'), e['key']))
        print(rows[-1], flush=True)
    print('\n%-4s %-8s %-48s %s' % ('prop', 'commit', 'result on the tree with the fix reverted', 'recorded key'))
    for r in rows:
        print('%-4s %-8s %-48s %s' % r)
    return 0


if __name__ == '__main__':
    sys.exit(main())
