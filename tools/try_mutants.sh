#!/bin/bash
# usage: tools/try_mutants.sh [name-prefix]  - applies each selftest/mutants/<rule>_<what>.diff to /repo, runs the quick check of the rule's
# property and expects a violation of exactly that rule; reverts. These are my own one-line mutants for rules no seeded change exercises.
set -u
cd /repo || exit 9
if [ -n "$(git status --porcelain --untracked-files=no)" ]; then echo "repo not clean"; exit 9; fi
fail=0
for m in /verif/selftest/mutants/${1:-}*.diff; do
  b=$(basename $m .diff); rule=${b%%_*}; num=${rule#R}; num=${num%%.*}; prop=$(printf "C%02d" $num)
  git apply "$m" || { echo "$b: patch does not apply"; fail=1; continue; }
  out=$(cd /verif && python3 bsverify.py --property $prop --tier quick 2>&1); rc=$?
  git checkout -- .
  if [ $rc -eq 1 ] && echo "$out" | grep -q "violated: $rule[a-z]*|"; then echo "$b: DETECTED by $prop ($rule)"; else echo "$b: MISSED rc=$rc"; echo "$out" | grep -E "violated|BROKEN" | cut -c1-200; fail=1; fi
done
git -C /verif checkout -- evidence 2>/dev/null
exit $fail
