#!/usr/bin/env python3
"""Prints the one-paragraph table of DESIGN.md 11.2 from the evidence files: per property the rule ids and the number of obligations."""
import json, os, re
V = os.path.dirname(os.path.dirname(os.path.abspath(__file__)))
out = []
for i in range(1, 21):
    pid = 'C%02d' % i
    d = json.load(open('%s/evidence/%s.json' % (V, pid)))
    cov = d['coverage']
    rules = sorted((r['id'] if isinstance(r, dict) else r for r in cov.get('rules', [])), key=lambda x: [int(t) if t.isdigit() else t for t in re.findall(r'\d+|\D+', x)])
    out.append('%s %s (%s)' % (pid, ', '.join(rules), cov.get('obligations')))
print(' · '.join(out))
