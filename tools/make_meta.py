#!/usr/bin/env python3
"""Writes seeded/<id>/meta.json for seeds that have only meta.agent.json: applies the patch to /repo, runs the quick check of the seed's own
property, records which rules report it, reverts. usage: tools/make_meta.py [seed-id ...]"""
import json, os, re, subprocess, sys
V = '/verif'
def sh(c):
    return subprocess.run(c, shell=True, stdout=subprocess.PIPE, stderr=subprocess.STDOUT, text=True)
ids = sys.argv[1:] or sorted(d for d in os.listdir(V + '/seeded') if not os.path.exists('%s/seeded/%s/meta.json' % (V, d)))
head = sh('git -C /repo log --format=%h -1').stdout.strip()
for i in ids:
    d = '%s/seeded/%s' % (V, i)
    prop = i.split('_')[0]
    ag = json.load(open(d + '/meta.agent.json'))
    if sh('git -C /repo status --porcelain --untracked-files=no').stdout.strip():
        print('repo not clean'); sys.exit(2)
    r = sh('git -C /repo apply %s/patch.diff' % d)
    if r.returncode:
        print(i, 'patch does not apply', r.stdout); continue
    out = sh('cd %s && python3 bsverify.py --property %s --tier quick' % (V, prop))
    sh('git -C /repo checkout -- .'); sh('git -C %s checkout -- evidence' % V)
    rules = sorted(set(re.findall(r'violated: (R[\d.]+[a-z]?)\|', out.stdout)))
    first = [l.strip() for l in out.stdout.splitlines() if l.strip().startswith('violated: ')][:1]
    meta = {'property': prop, 'summary': ag.get('summary'), 'manifests_when': ag.get('manifests_when'),
            'origin': 'independent sub-agent given only the property text and a scratch worktree (round %s)' % {'c': '3', 'd': '4', 'e': '5', 'f': '6', 'g': '7', 'h': '8'}.get(i.split('_')[-1], '?'),
            'verified_by_me': {'pinned_tests_with_change': '100% tests passed, 0 tests failed out of 819', 'demo_with_change': 'non-zero exit (see meta.agent.json)',
                               'demo_without_change': 'exit 0', 'how': '/tmp/verify_seed.sh <worktree>: rebuild _build + ctest; rebuild archive libs; build + run demo; '
                               'revert the change (git diff > file; git checkout); rebuild; run demo; re-apply'},
            'detected_by': ('%s %s' % (prop, ' '.join(rules)) + (' (%s)' % first[0][10:230] if first else '')) if out.returncode == 1 else 'MISSED by the check of %s (rc=%d)' % (prop, out.returncode),
            'ran': 'tools/make_meta.py %s (git -C /repo apply; quick check of %s; git -C /repo checkout -- .)' % (i, prop),
            'patch': 'patch.diff applies to /repo HEAD %s' % head + ('; the agent\'s original patch is kept as patch.pre-*.diff' if any(f.startswith('patch.pre-') for f in os.listdir(d)) else ''),
            'demo_build': ag.get('demo_build')}
    json.dump(meta, open(d + '/meta.json', 'w'), indent=1)
    print(i, 'rc=%d' % out.returncode, rules)
