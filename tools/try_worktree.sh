#!/bin/bash
# usage: tools/try_worktree.sh <worktree of /repo with a change applied> [properties...] - runs the quick checks with BSV_REPO pointing at the
# worktree (evidence files are restored afterwards); prints rc per property.
WT=$1; shift
PROPS="$@"
[ -z "$PROPS" ] && PROPS="C01 C02 C03 C04 C05 C06 C07 C08 C09 C10 C11 C12 C13 C14 C15 C16 C17 C18 C19 C20"
cd /verif
for p in $PROPS; do
  out=$(BSV_REPO=$WT python3 bsverify.py --property $p --tier quick 2>&1); rc=$?
  [ $rc -ne 0 ] && { echo "  $p rc=$rc"; echo "$out" | grep -E "^  violated|ANALYSIS-BROKEN" | cut -c1-330 | head -6; }
done
git -C /verif checkout -- evidence 2>/dev/null
echo "  done $WT"
