#!/bin/bash
# usage: tools/try_seed.sh <seed dir> [property ...]   - applies seeded/<dir>/patch.diff to /repo, runs the quick checks, reverts.
set -u
D=/verif/seeded/$1; shift
PROPS="$@"
if [ -z "$PROPS" ]; then PROPS=$(python3 -c "import json;print(' '.join(c['property_id'] for c in json.load(open('/verif/MANIFEST.json'))['checks']))"); fi
cd /repo || exit 9
if [ -n "$(git status --porcelain --untracked-files=no)" ]; then echo "repo not clean"; exit 9; fi
git apply $D/patch.diff || { echo "patch does not apply"; exit 9; }
cd /verif
for p in $PROPS; do
  out=$(python3 bsverify.py --property $p --tier quick 2>&1); rc=$?
  nv=$(echo "$out" | grep -c "^VIOLATION")
  echo "  $p rc=$rc violations=$nv"
  echo "$out" | grep -E "^  violated|ANALYSIS-BROKEN" | cut -c1-260 | head -4
done
git -C /repo checkout -- . 
# restore evidence files to the unchanged-tree state
git -C /verif checkout -- evidence 2>/dev/null
