#!/bin/bash
# usage: tools/par_patches.sh <jobs> <patch files...>   - every patch is applied to its own scratch worktree of /repo (under /tmp), all twenty
# quick checks are run there (BSV_REPO / BSV_EVIDENCE_DIR point away from /repo and /verif/evidence), the worktree is removed. One line per
# patch: SILENT, or the checks that reported something.
J=$1; shift
run_one() {
  P=$1; N=$(basename $P .diff); WT=/tmp/pw_$N
  git -C /repo worktree add --detach $WT HEAD >/dev/null 2>&1 || { echo "$N: cannot create worktree"; return; }
  if ! git -C $WT apply $P 2>/dev/null; then echo "$N: patch does not apply"; git -C /repo worktree remove --force $WT; return; fi
  res=""
  for p in C01 C02 C03 C04 C05 C06 C07 C08 C09 C10 C11 C12 C13 C14 C15 C16 C17 C18 C19 C20; do
    out=$(cd /verif && BSV_CACHE_KEEP=300 BSV_REPO=$WT BSV_EVIDENCE_DIR=$WT/.evidence python3 bsverify.py --property $p --tier quick 2>&1); rc=$?
    if [ $rc -ne 0 ]; then res="$res $p(rc=$rc: $(echo "$out" | grep -E '^  violated|ANALYSIS-BROKEN' | head -2 | cut -c1-220 | tr '\n' ' '))"; fi
  done
  git -C /repo worktree remove --force $WT >/dev/null 2>&1
  [ -z "$res" ] && echo "$N: SILENT" || echo "$N:$res"
}
export -f run_one
printf '%s\n' "$@" | xargs -P $J -I{} bash -c 'run_one {}'
