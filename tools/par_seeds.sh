#!/bin/bash
# usage: tools/par_seeds.sh <jobs> [seed ids...]  - every stored seed (seeded/<id>/patch.diff) and own mutant (selftest/mutants/*.diff) is applied
# to its own scratch worktree and the quick check of its own property is run there. One line per change: DETECTED (rules) or MISSED.
J=$1; shift
run_one() {
  P=$1; WT=/tmp/ps_$(echo $P | md5sum | cut -c1-8)
  case $P in
    */seeded/*) N=$(basename $(dirname $P)); PROP=${N%%_*}; WANT="";;
    *) N=$(basename $P .diff); R=${N%%_*}; num=${R#R}; num=${num%%.*}; PROP=$(printf "C%02d" $num); WANT=$R;;
  esac
  git -C /repo worktree add --detach $WT HEAD >/dev/null 2>&1 || { echo "$N: cannot create worktree"; return; }
  if ! git -C $WT apply $P 2>/dev/null; then echo "$N: patch does not apply"; git -C /repo worktree remove --force $WT; return; fi
  out=$(cd /verif && BSV_CACHE_KEEP=300 BSV_REPO=$WT BSV_EVIDENCE_DIR=$WT/.evidence python3 bsverify.py --property $PROP --tier quick 2>&1); rc=$?
  git -C /repo worktree remove --force $WT >/dev/null 2>&1
  rules=$(echo "$out" | grep -oE "violated: R[0-9.]+[a-z]*" | sort -u | cut -d' ' -f2 | tr '\n' ' ')
  if [ $rc -eq 1 ] && { [ -z "$WANT" ] || echo " $rules" | grep -q " $WANT[a-z]* "; }; then echo "$N: DETECTED by $PROP ($rules)"; else echo "$N: MISSED rc=$rc ($rules) $(echo "$out" | grep BROKEN | cut -c1-160)"; fi
}
export -f run_one
if [ $# -gt 0 ]; then L=$(for i in "$@"; do echo /verif/seeded/$i/patch.diff; done); else L=$(ls /verif/seeded/*/patch.diff /verif/selftest/mutants/*.diff); fi
printf '%s\n' $L | xargs -P $J -I{} bash -c 'run_one {}'
