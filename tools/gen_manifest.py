#!/usr/bin/env python3
"""Regenerates /verif/MANIFEST.json from the table below (single source of truth for what is claimed)."""
import json
import os

VERIF = os.path.dirname(os.path.dirname(os.path.abspath(__file__)))

NOTE = ('Trusted: clang 14 front end (AST, constant evaluator, CFG), the bsfacts extractor, tables/*.json and spec/*.py (hand-reviewed '
        'oracles), libstdc++/RapidJSON/pugixml behave as classified. Templates are analysed in the instantiations of the 7 library TUs '
        '+ the witnesses under /verif/witness. Only the structural clauses named in the level text are decided, never value-level equality.')

CLAIMED = {
    'C01': ('other',
            'Round-trip equality over all values is not decided. Decided are necessary structural clauses: value-preserving conversions on every '
            'save path of every archive scope; one common entry-point protocol (context, archive, serialize, Finalize) in all LoadObject/SaveObject '
            'overloads; XML node shapes emitted by the save side are accepted by the load side (childless element = empty value; recorded known '
            'findings); MsgPack writer-emits subset-of reader-accepts over the decision tables of both codecs; JSON rendering result consumed and '
            'stream source encoding named; a value the stream reader delivers in chunks is assembled in order (inductive step of the chunk loop); the configured CSV separator reaches every function that decides with it; no counter narrower than 32 bits is updated in a loop; every string that enters the RapidJSON DOM on the save side is copied (non-owning nodes only for literals and lookups). The binary timestamp layout chosen by both MsgPack writers holds the whole value over all (seconds, nanoseconds) cells.',
            'cast-kind audit on the typed AST + call protocol rule + writer/reader decision-table inclusion (abstract interpretation)', '§5 C01'),
    'C02': ('other',
            'Structural necessary conditions of "no input can crash or exhaust the loader": no escape to std::terminate on load paths, no '
            'input-driven recursion, no unclamped header-declared pre-sizing, every read of the MsgPack input buffer covered by a bounds guard '
            'on every abstract path for all 256 first bytes (both readers and helpers), array end guards agree with IsEnd(); CSV unescape reads stay inside the cell in every loop iteration (inductive facts by Houdini); '
            'the stream window analysis incl. disjoint memcpy regions; the encoded text stream reader keeps its window inside the buffer and makes progress at end of file (a truncated last code unit cannot spin a caller); no scalar local of the library is read before it is definitely written (definite-assignment analysis over CFG paths; a target of a failure-reporting loader counts as written only where the result was tested); the MsgPack key comparison is reflexive on a stored NaN (the key-visiting loop relies on it to advance); the encoded stream reader never answers Success on a failed stream with nothing buffered. Hangs and arithmetic UB in general are not decided.',
            'may-throw closure + call-graph SCCs + taint-to-sink flow + guard domination by abstract interpretation over the first-byte domain', '§5 C02'),
    'C03': ('other',
            'Structural necessary conditions of order-independent field loading: failure results of positioning/refill calls are consumed, '
            'seekg after EOF is preceded by clear(), single-value wrappers store only on a loaded path and return that result, validators get '
            'the real result, the MsgPack object scope keeps item accounting (keys+values consumed == 2 x pairs accounted, modulo the pending '
            'key) on every CFG path with helper summaries, and the stream window keeps its logical position; the CSV readers select the column whose header equals the key (execution over a header row '
            'holding every prefix relation). A key given as a character array is compared as its null-terminated text. Which value a MsgPack key maps to is not decided. CSV column names are read through the unescaping cell path in both readers; a character-array key is compared as a whole (no prefix window).',
            'CFG path enumeration with typestate (pending key) and balance events, interprocedural helper summaries; linear window analysis', '§5 C03'),
    'C04': ('other',
            'Value-flow of arithmetic stores by clang cast kinds and types in every instantiated value loader (no narrowing / sign-changing / '
            'int-float cast reaches a load target), handler discipline of ConvertByPolicy and of the three other policy mappers (the load target is only assigned from a finished conversion inside their try blocks), success-flag '
            'discipline and exception-type discipline of the checked conversions; interval analysis of every integer-to-integer conversion; MsgPack integer/float '
            'readers hand the payload on with the width and signedness of the wire format; JSON numbers reach the checked conversion through the getter valid for their class.',
            'cast-kind classification of stores (type-checked AST per instantiation) + handler/exception discipline rules', '§5 C04'),
    'C05': ('other',
            'Path-complete accounting on the clang CFG: in the MsgPack array/binary read scopes every normal path consumes exactly as many '
            'elements as it counts; DOM array scopes advance once per request; mismatch protocol tables for all 256 first bytes in both '
            'reader copies; the array attempt after a failed binary scope sees the same value (every failing path of OpenBinaryScope consumes nothing); an integer the target cannot hold reaches the policy mapper; the carrier of an element is fresh per element in every container loader; the object read scope accounts every consumed member on every path, also the skipped-by-policy ones; header-declared lengths are kept in integer objects wide enough for their length field. Necessary conditions for "a skip consumes exactly '
            'that value"; neighbour values themselves are not decided.',
            'CFG path enumeration with event balance (consume vs count) + decision tables over the first-byte domain', '§5 C05'),
    'C06': ('other',
            'Abstract interpretation of both MsgPack writers over value/length intervals partitioned at every compared constant, against an '
            'oracle written from the MessagePack specification: format code, length-field width, minimal encoded size, big-endian payload '
            'of the argument itself, oversize => exception, timestamp headers and field layout; twin equality of the two writers; the '
            'seconds/nanoseconds split of time values decided over linear forms (no overflow, 0 <= ns < 10^9, sec*10^9+ns exact); every Open*Scope of the write scopes emits the header of its own family; the chaining operators of the field counter return *this by reference, its arithmetic counts every class once (linear forms), and every keyed save path writes the entry it counted. Exhaustive over the partition cells; payload bit patterns of floats are not decided. Byte sequences (C arrays and vectors of char / signed char / unsigned char, keyed, unkeyed and at the root) are handed to the binary scope in every instantiation.',
            'decision tables by abstract interpretation over an interval partition, compared with a hand-written spec oracle', '§5 C06'),
    'C07': ('other',
            'Abstract interpretation of both MsgPack readers over the exact domain of all 256 first bytes against an oracle written from the '
            'MessagePack specification: accept sets, length-field and payload widths, signedness, embedded values, ext type-byte offsets, '
            'classification table, and skip extents for every first byte. Exhaustive over the first-byte domain; payload VALUES are not decided. Byte sequences of all three byte element types are loaded through the binary scope in every instantiation.',
            'decision tables by abstract interpretation over a finite exact domain, compared with a hand-written spec oracle', '§5 C07'),
    'C08': ('other',
            'Conformance of the emitted text is delegated to rapidjson/pugixml; decided are the adapter obligations around them: Accept() result '
            'consumed, ParseStream source encoding, UtfType-to-backend maps, encoding/BOM/format options reaching the renderers, XML input '
            'encoding handling, the decision table of the JSON value loader over the kinds of JSON value (every number spelling loads into a floating target), equal pugixml parse options for string and stream input; strings entering the RapidJSON DOM are copied. Equality of the recovered data model under re-rendering is not decided.',
            'result-consumption and argument-flow rules over the typed AST, switch tables', '§5 C08'),
    'C09': ('other',
            'Symbolic linear evaluation of every view built from a CSV cell descriptor (exactly [Offset, Offset+Size) in all four ReadValue '
            'bodies), abstract interpretation of the field-quoting decision over all byte values x separators, presence of the row-width check '
            'on every row kind (execution over row states), separator validation before construction, and the transition table of the field scanner of both readers '
            'against RFC 4180 (one generic iteration per character class x quotes seen x last CR x end of input); separator forwarding; the stream scanner reads decoded text only. One separator per line iff the line already holds a field, header and row alike, in both writers; column names read through the unescaping path.',
            'dimension typing by linear evaluation + decision table of the quoting predicate + must-pass-through checks', '§5 C09'),
    'C10': ('other',
            'Sibling cross-check of the duplicated memory/stream implementations: equal decision tables of the two MsgPack readers for all '
            'methods x 256 first bytes; writer tables; CSV twins compared cell by cell (row states, column selection, scanner transitions), cell reads do not write the row, '
            'chunked strings are assembled in order, stream-positioning discipline (whole error state cleared before a backward seek), length widths of both reader copies, separator forwarding, no look-ahead of the CSV stream scanner into text not decoded yet, equal parser options of the memory and stream constructors of the JSON and XML adapters and equal validation of string bytes (one recorded known finding: JSON validates only stream input). Decides agreement of the copies, not behaviour at every chunk alignment. Cells with a lone quote inside a quoted field are unescaped alike by both readers; column names are unescaped by both readers.',
            'twin comparison of decision tables / statement skeletons of sibling implementations', '§5 C10'),
    'C11': ('other',
            'Abstract interpretation of the cross-width transcoders over the scalar-value / code-unit classes of the Unicode standard: for '
            'every well-formed class the emitted code-unit intervals and the consumed length equal the standard (all 256 UTF-8 lead bytes x '
            'second-byte classes; encoder classes; surrogate pairs), plus width dispatch and endianness adapters of the traits classes, and the stream reader never rejects text for a sequence that merely straddles its chunk boundary; no string or view is re-measured from a bare pointer (also in the archive-level transcoding). '
            'Exactness is decided at interval precision per class, not per scalar value.',
            'decision tables by abstract interpretation over interval classes, compared with a hand-written Unicode oracle', '§5 C11'),
    'C12': ('other',
            'Same interpreter over the ill-formed classes (Table 3-7 complements, lone/misordered surrogates, UTF-32 surrogates and values '
            'above U+10FFFF): nothing decoded is emitted, the error is counted once and marked or reported at its start; every input read is '
            'bounds-guarded and every iteration advances; the configured policy and error mark are forwarded by every layer that holds them (no fallback to a default argument); callers that report failure by throwing do so for every result code but Success; the encoded stream writer writes and reports Success only after a successful Encode. First sequence of the input only. A tail shorter than one code unit at the end of an encoded stream is replaced or reported; the CSV archive hands the configured error policy to its encoded stream reader and writer.',
            'decision tables by abstract interpretation over interval classes + iterator typestate (guard domination)', '§5 C12'),
    'C14': ('other',
            'Calendar correctness and the exact print/parse round trip are NOT decided (integer arithmetic over 2^64 instants). Decided is one '
            'necessary structural clause of "the text form is the correct date-time": the text is produced inside its buffer - every store of '
            'PrintIsoUtc / PrintDurationPart lies in [buf, end) for symbolic pointers and symbolic snprintf/to_chars results, and callers pass '
            'a local array with an end inside it - plus: no signed overflow in the printer for any representable time point of any instantiated precision, '
            'era divisions are floor divisions, and the binary timestamp form (split, both MsgPack writers and readers) keeps the value.',
            'linear-constraint analysis of buffer cursors (Fourier-Motzkin entailment) over the typed AST', '§6, §11.7'),
    'C15': ('other',
            'Decides the "never wraps" clause where it is visible in the code: interval abstract interpretation with adaptive cell splitting '
            'over every instantiation of SafeDurationCast (no signed overflow, value returned only unwrapped and equal to the exact product/quotient, '
            'otherwise out_of_range), linear-constraint analysis of both SafeAddDuration overloads, from_chars error-code mapping, the calendar '
            'acceptance table of the datetime parser over (year mod 400, month, day), the negation of parsed magnitudes, the scaling of the fraction digits (digit count x boundary values) the year range of the tm target, and no std::chrono rounding / cast into a representation narrower than its source. That an accepted text '
            'yields the denoted instant is calendar arithmetic and is not decided.',
            'abstract interpretation: interval domain with adaptive partitioning, linear constraints (Fourier-Motzkin), finite quotient tables', '§5 C15'),
    'C16': ('other',
            'Bit-exact value round trips belong to std::to_chars/from_chars and are not decided. Decided are the library obligations around them: '
            'error-code mapping of every from_chars result, checked to_chars results with sufficient buffers per instantiated type, in-bounds '
            'look-ahead of the integer parser (linear constraints), the bool parser decision table over character classes and lengths with '
            'in-bounds reads, and the narrowing/widening route for the four character widths (no code unit is narrowed before it is classified, closures of the parsers included).',
            'abstract interpretation over finite character-class / error-code domains, linear constraints, call-shape rules', '§5 C16'),
    'C17': ('other',
            'Validator plumbing decided structurally per instantiation (fold order over all validators, message forwarding, grouping/append, '
            'grouping/append and cap decided by executing AddValidationError over a map model, final throw iff non-empty map, entry-point protocol, wrapper loaders report not-loaded whenever they leave the wrapper empty) and the built-in validators decided by abstract interpretation '
            'over the finite orderings of value/size vs bounds x loaded. Path strings and the Email/Phone grammars are not decided. A field counts as loaded only under its own key: the MsgPack key comparison for character-array keys is whole-key equality.',
            'AST rules per instantiation + decision tables over finite orderings', '§5 C17'),
    'C18': ('other',
            'Every container/wrapper loader carries its stale-state eliminator on every normal CFG path of every load instantiation '
            '(final resize(counter) with one increment per element load; clear() before insertion and on every normal exit; clear iff Clean; reset only on the '
            'not-loaded path; assign; size-mismatch throw; bitset loop over all positions), the sequence loaders executed over a container model (target = loaded items in order for every '
            'prior size x item count x estimate) the map load modes have no forbidden effect, and the loaded / not-loaded result of a string field does not depend on its text. Element values are not decided.',
            'CFG path enumeration (event order / counting) + effect rules per switch case', '§5 C18'),
    'C13': ('other',
            'Decides the structural clauses: BOM constants against the Unicode tables; BOM test order, reported encoding and data offset; the '
            'BOM-less detection as a decision table over byte classes of texts starting with an ASCII character in each encoding (one unit '
            'and longer) with every probe read inside the view; every switch over UtfType maps like-named traits; the writer emits the BOM '
            'iff configured, for the configured encoding, with size()*sizeof(unit) bytes; the stream reader\'s window arithmetic over symbolic '
            'pointers (invariant, refill/squeeze bounds, no overlapping memcpy) and end-of-file progress (Success at eof leaves an empty '
            'window, so no caller loop can spin); the istream overload of DetectEncoding repositions the stream relative to its entry position; the CSV stream scanner reads decoded text only. Equality of decoded and written text is not decided. JSON writers over an encoded stream are instantiated with the run-time target encoding, formatted and compact alike.',
            'abstract interpretation over byte-class / linear-constraint domains (Fourier-Motzkin entailment) + AST structural rules', '§5 C13'),
    'C19': ('proof',
            'Exhaustive audit of shared state: every static-storage object of the library is immutable or a tabled registry written only '
            'during static initialisation; save paths never mutate the source (direct writes, non-const calls, reference aliases, accessor writes, mutating standard algorithms); hence every shared access from concurrent operations is a '
            'read. Finite and complete over the analysed program, so a proof of the structural clause.',
            'shared-state audit: who-may-write over the type-checked AST, use classification by cast/call/assignment kinds', '§5 C19'),
    'C20': ('other',
            'May-throw closure over the resolved call graph decides that no library/I-O raised exception can escape a destructor or '
            'noexcept function, that all throws are std::exception-derived, that raw owners are leak-safe by construction, that the status of every JSON rendering call is consumed, and that a truncated text stream ends in a result instead of an endless loop. Necessary '
            'structural clauses of the property; allocation-failure leak freedom is not decided.',
            'interprocedural may-throw analysis to nothrow sinks + ownership typestate on constructors', '§5 C20'),
}

NOT_APPLICABLE = {
}


def main():
    props = [json.loads(l) for l in open(os.path.join(VERIF, 'properties.jsonl'))]
    checks = []
    for p in props:
        pid = p['id']
        if pid not in CLAIMED:
            continue
        cat, text, tech, ref = CLAIMED[pid]
        checks.append({
            'property_id': pid,
            'quick_cmd': 'python3 bsverify.py --property %s --tier quick' % pid,
            'thorough_cmd': 'python3 bsverify.py --property %s --tier thorough' % pid,
            'evidence_file': '/verif/evidence/%s.json' % pid,
            'replay_cmd_template': 'cat {path}',
            'engine': 'bsverify',
            'level_claimed': {'category': cat, 'text': text, 'design_ref': ref},
            'level_note': NOTE,
            'technique': 'static analysis: ' + tech,
        })
    na = []
    for p in props:
        pid = p['id']
        if pid in CLAIMED:
            continue
        na.append({'property_id': pid, 'reason': NOT_APPLICABLE.get(pid, 'check not built yet at this commit (planned: DESIGN.md §5); not claimed until it is')})
    m = {
        'version': 1,
        'setup_cmd': 'make -C /verif all',
        'hooks': {'guard': 'BITSERIALIZER_VERIF', 'enable': 'no hooks: every rule reads the unmodified source',
                  'baseline_off_cmd': 'cmake --build /repo/_build -j16 && ctest --test-dir /repo/_build -j8 --timeout 900',
                  'source_commits': [], 'add_only': True},
        'engines': [
            {'name': 'bsfacts', 'path': '/verif/tools/bsfacts.cc', 'serves_properties': sorted(CLAIMED),
             'kind_free_text': 'libTooling fact extractor: type-checked AST + CFG + clang-evaluated constants of every repo function body incl. template instantiations'},
            {'name': 'bsverify', 'path': '/verif/bsverify.py', 'serves_properties': sorted(CLAIMED),
             'kind_free_text': 'static rule engines over the facts: may-throw closure (E1), CFG pairing/balance (E2), decision tables over finite exact domains (E3), twins (E4), effects (E5), casts (E6), dimension typing (E7), type-level witnesses (E8)'}],
        'checks': checks,
        'not_applicable': na,
        'notes': 'Static analysis only: no library code is executed by any check. Exit 2 = analysis broken (anchor vanished / floor not met / tree does not compile).',
    }
    with open(os.path.join(VERIF, 'MANIFEST.json'), 'w') as fh:
        json.dump(m, fh, indent=1)
        fh.write('\n')
    print('claimed: %s; not applicable: %s' % (sorted(CLAIMED), [x['property_id'] for x in na]))


if __name__ == '__main__':
    main()
