#!/bin/bash
# usage: tools/try_patch.sh <patch file> [property ...]  - applies the patch to /repo, runs the quick checks (all by default), reverts.
# Prints rc per property: 0 = silent, 1 = VIOLATION reported, 2 = analysis broken.
set -u
P=$1; shift
PROPS="$@"
if [ -z "$PROPS" ]; then PROPS=$(python3 -c "import json;print(' '.join(c['property_id'] for c in json.load(open('/verif/MANIFEST.json'))['checks']))"); fi
cd /repo || exit 9
if [ -n "$(git status --porcelain --untracked-files=no)" ]; then echo "repo not clean"; exit 9; fi
git apply "$P" || { echo "patch does not apply"; exit 9; }
cd /verif
for p in $PROPS; do
  out=$(python3 bsverify.py --property $p --tier quick 2>&1); rc=$?
  echo "  $p rc=$rc"
  [ $rc -ne 0 ] && echo "$out" | grep -E "^  violated|ANALYSIS-BROKEN" | cut -c1-300 | head -6
done
git -C /repo checkout -- .
git -C /verif checkout -- evidence 2>/dev/null
