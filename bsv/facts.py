"""Fact loading: runs bsfacts over the analysed units (cached by content hash) and exposes the
resolved program (functions with statement trees and CFGs, symbols, records, globals)."""
import hashlib
import json
import os
import shutil
import subprocess
import sys
import time
from concurrent.futures import ThreadPoolExecutor

VERIF = os.path.dirname(os.path.dirname(os.path.abspath(__file__)))
REPO = os.environ.get('BSV_REPO', '/repo')
BSFACTS = os.path.join(VERIF, 'bin', 'bsfacts')
CACHE = os.path.join(VERIF, '.cache')

LIB_UNITS = [
    'src/common/binary_stream_reader.cpp',
    'src/msgpack/msgpack_archive.cpp',
    'src/msgpack/msgpack_readers.cpp',
    'src/msgpack/msgpack_writers.cpp',
    'src/csv/csv_archive.cpp',
    'src/csv/csv_readers.cpp',
    'src/csv/csv_writers.cpp',
]
WITNESS_QUICK = ['w_archives.cpp', 'w_convert.cpp']
WITNESS_THOROUGH = ['w_stdtypes.cpp']


class AnalysisBroken(Exception):
    """The analysis itself cannot be carried out (exit 2): never a pass, never a violation."""


def resource_dir():
    try:
        return subprocess.check_output(['clang++', '-print-resource-dir'], text=True).strip()
    except Exception:
        return '/usr/lib/llvm-14/lib/clang/14.0.6'


def flags():
    return ['-std=gnu++17', '-DNDEBUG', '-I%s/include' % REPO, '-I%s/src' % REPO,
            '-resource-dir', resource_dir(), '-Wno-everything']


def _hash_tree():
    h = hashlib.sha256()
    roots = [os.path.join(REPO, 'include'), os.path.join(REPO, 'src'), os.path.join(VERIF, 'witness')]
    n = 0
    for root in roots:
        for dp, dn, fn in os.walk(root):
            dn.sort()
            if 'testing_tools' in dp:
                continue
            for f in sorted(fn):
                p = os.path.join(dp, f)
                try:
                    with open(p, 'rb') as fh:
                        data = fh.read()
                except OSError:
                    continue
                h.update(p.encode())
                h.update(b'\0')
                h.update(data)
                h.update(b'\0')
                n += 1
    for p in (BSFACTS,):
        with open(p, 'rb') as fh:
            h.update(fh.read())
    h.update(REPO.encode())
    return h.hexdigest()[:24], n


def unit_list(tier, want=None):
    units = [('lib', os.path.join(REPO, u)) for u in LIB_UNITS]
    ws = list(WITNESS_QUICK)
    if tier == 'thorough':
        ws += WITNESS_THOROUGH
    for w in ws:
        p = os.path.join(VERIF, 'witness', w)
        if os.path.exists(p):
            units.append(('witness', p))
    if want is not None:
        units = [u for u in units if os.path.basename(u[1]) in want]
    return units


def _run_unit(src, out):
    cmd = [BSFACTS, out + '.tmp', REPO.rstrip('/') + '/:' + os.path.join(VERIF, 'witness') + '/', src, '--'] + flags()
    p = subprocess.run(cmd, stdout=subprocess.PIPE, stderr=subprocess.STDOUT, text=True)
    if p.returncode != 0 or not os.path.exists(out + '.tmp'):
        return (src, p.returncode, p.stdout[-4000:])
    os.replace(out + '.tmp', out)
    return (src, 0, '')


def ensure_facts(tier='quick', want=None, verbose=True):
    if not os.path.exists(BSFACTS):
        raise AnalysisBroken('bsfacts is not built: run the setup command (make -C /verif)')
    key, nfiles = _hash_tree()
    d = os.path.join(CACHE, key)
    os.makedirs(d, exist_ok=True)
    units = unit_list(tier, want)
    todo = []
    paths = []
    for kind, src in units:
        out = os.path.join(d, os.path.basename(src) + '.json')
        paths.append((kind, src, out))
        if not os.path.exists(out):
            todo.append((src, out))
    if todo:
        t0 = time.time()
        with ThreadPoolExecutor(max_workers=min(16, len(todo))) as ex:
            res = list(ex.map(lambda a: _run_unit(*a), todo))
        bad = [r for r in res if r[1] != 0]
        if bad:
            msg = '\n'.join('%s: rc=%d\n%s' % b for b in bad)
            raise AnalysisBroken('front end failed on analysed unit(s) - the tree does not compile:\n' + msg)
        if verbose:
            print('[facts] extracted %d unit(s) in %.1fs (source hash %s over %d files)' % (len(todo), time.time() - t0, key, nfiles))
    # prune old cache dirs (keep the most recent ones; BSV_CACHE_KEEP raises the number for parallel trials on scratch worktrees)
    try:
        ds = sorted((os.path.getmtime(os.path.join(CACHE, x)), x) for x in os.listdir(CACHE)
                    if os.path.isdir(os.path.join(CACHE, x)))
        for _, x in ds[:-int(os.environ.get('BSV_CACHE_KEEP', '3'))]:
            if x != key:
                shutil.rmtree(os.path.join(CACHE, x), ignore_errors=True)
        os.utime(d, None)
    except OSError:
        pass
    return paths, key


# --------------------------------------------------------------------------- program model
class Func(object):
    __slots__ = ('sym', 'tu', 'raw', 'id', '_nodes', '_parent', '_blocks', 'unit')

    def __init__(self, sym, tu, raw, unit):
        self.sym = sym
        self.tu = tu
        self.raw = raw
        self.id = sym['id']
        self._nodes = None
        self._parent = None
        self._blocks = None
        self.unit = unit

    # symbol facts
    @property
    def q(self):
        return self.sym['q']

    @property
    def name(self):
        return self.sym['n']

    @property
    def pq(self):
        """pattern-level qualified name (template arguments removed)"""
        return strip_targs(self.sym['q'])

    @property
    def file(self):
        return self.tu['files'][self.sym['file']]

    @property
    def relfile(self):
        f = self.file
        if f.startswith(REPO.rstrip('/') + '/'):
            return f[len(REPO.rstrip('/')) + 1:]
        return f

    @property
    def line(self):
        return self.sym['line']

    @property
    def pattern(self):
        return self.sym.get('pat') or ('%s:%d' % (self.file, self.line))

    @property
    def cls(self):
        return self.sym.get('cls', '')

    @property
    def body(self):
        return self.raw.get('body')

    @property
    def cfg(self):
        return self.raw.get('cfg')

    @property
    def params(self):
        return self.raw.get('params', [])

    def type(self, node_or_idx):
        i = node_or_idx if isinstance(node_or_idx, int) else node_or_idx.get('t', -1)
        if i is None or i < 0:
            return ''
        return self.tu['types'][i]

    def callee(self, node):
        i = node.get('fn', -1)
        if i is None or i < 0:
            return None
        return self.tu['syms'][i]

    def symfile(self, sym):
        return self.tu['files'][sym['file']]

    def roots(self):
        """All statement-tree roots of this function: ctor initialisers first, then the body."""
        out = []
        for ini in self.raw.get('inits', []):
            if ini.get('e'):
                out.append(ini['e'])
        if self.raw.get('body'):
            out.append(self.raw['body'])
        return out

    def _index(self):
        nodes = {}
        parent = {}
        stack = [(r, None) for r in self.roots()]
        while stack:
            n, p = stack.pop()
            if n is None:
                continue
            nodes[n['i']] = n
            parent[n['i']] = p
            for c in n.get('c', ()):
                stack.append((c, n))
        self._nodes = nodes
        self._parent = parent

    def node(self, i):
        if self._nodes is None:
            self._index()
        return self._nodes.get(i)

    def parent(self, n):
        if self._parent is None:
            self._index()
        return self._parent.get(n['i'])

    def walk(self, root=None):
        roots = [root] if root is not None else self.roots()
        stack = list(reversed(roots))
        while stack:
            n = stack.pop()
            if n is None:
                continue
            yield n
            cs = n.get('c', ())
            for c in reversed(cs):
                stack.append(c)

    def loc(self, n=None):
        if n is None:
            return '%s:%d' % (self.relfile, self.line)
        f = self.relfile
        if 'f' in n:
            f = self.tu['files'][n['f']]
            if f.startswith(REPO.rstrip('/') + '/'):
                f = f[len(REPO.rstrip('/')) + 1:]
        return '%s:%d' % (f, n.get('l', 0))


def strip_targs(q):
    """Qualified name with every template argument list removed (pattern-level name)."""
    out = []
    depth = 0
    i = 0
    while i < len(q):
        c = q[i]
        if c == '<' and not q.startswith('operator<', max(0, i - 8), i + 1):
            depth += 1
        elif c == '>' and depth > 0 and not (i > 0 and q[i - 1] == '-'):
            depth -= 1
        elif depth == 0:
            out.append(c)
        i += 1
    return ''.join(out)


def child(n, role):
    r = n.get('r')
    if not r:
        return None
    for i, x in enumerate(r):
        if x == role:
            return n['c'][i]
    return None


def children_with_role(n, role):
    r = n.get('r')
    if not r:
        return []
    return [n['c'][i] for i, x in enumerate(r) if x == role]


TRANSPARENT = ('ImplicitCastExpr', 'ParenExpr', 'ExprWithCleanups', 'MaterializeTemporaryExpr', 'CXXBindTemporaryExpr',
               'ConstantExpr', 'SubstNonTypeTemplateParmExpr', 'CXXFunctionalCastExpr', 'CXXStaticCastExpr', 'CStyleCastExpr',
               'FullExpr')
TRANSPARENT_IMPLICIT = ('ImplicitCastExpr', 'ParenExpr', 'ExprWithCleanups', 'MaterializeTemporaryExpr', 'CXXBindTemporaryExpr',
                        'ConstantExpr', 'SubstNonTypeTemplateParmExpr', 'FullExpr')


def strip(n, casts=True):
    """Skip value-preserving wrappers (optionally explicit casts too)."""
    ks = TRANSPARENT if casts else TRANSPARENT_IMPLICIT
    while n is not None and n['k'] in ks and n.get('c'):
        n = n['c'][0]
    return n


class Program(object):
    def __init__(self, tier='quick', want=None, verbose=True):
        t0 = time.time()
        paths, self.key = ensure_facts(tier, want, verbose)
        self.units = []
        self.funcs = {}
        self.dups = 0
        self.tus = []
        self.records = {}
        self.globals = {}
        self.syms = {}        # id -> sym (any TU; prefers repo definition)
        self.by_q = {}
        self.enums = {}
        for kind, src, out in paths:
            with open(out) as fh:
                tu = json.load(fh)
            tu['unit'] = src
            tu['kind'] = kind
            self.tus.append(tu)
            self.units.append(src)
            syms = tu['syms']
            for s in syms:
                s.setdefault('_tu', tu)
                # a lambda inside a function template: the extractor names it by source position only, so the closures of all
                # instantiations would share one id (and one body, with the local declarations of whichever came first)
                # (also the specialisations of a generic lambda's operator(), whose kind is not 'lambda', and closures of function templates
                # whose printed name carries the parameter types instead of template arguments)
                if '::(anonymous class)::' in s.get('q', '') and ' in ' not in s['id']:
                    encl = s['q'].split('::(anonymous class)::')[0]
                    if '<' in encl or '(' in encl:
                        s['id'] = s['id'] + ' in ' + encl
                if s['id'] not in self.syms:
                    self.syms[s['id']] = s
            for raw in tu['functions']:
                sym = syms[raw['sym']]
                f = Func(sym, tu, raw, src)
                if f.id in self.funcs:
                    self.dups += 1
                    continue
                self.funcs[f.id] = f
                self.syms[f.id] = sym
                self.by_q.setdefault(sym['q'], []).append(f)
            for r in tu['records']:
                if r['name'] not in self.records:
                    r['_tu'] = tu
                    self.records[r['name']] = r
            for e in tu.get('enums', []):
                self.enums.setdefault(e['q'], {'items': dict((n, v) for n, v in e['items']), 'order': [n for n, v in e['items']],
                                               'file': tu['files'][e['file']], 'line': e['line']})
            for g in tu['globals']:
                g['_tu'] = tu
                key = (tu['files'][g['file']], g['line'], g['q'], tu['types'][g['t']])
                self.globals.setdefault(key, []).append(g)
        self.load_s = time.time() - t0
        if verbose:
            print('[facts] %d units, %d function bodies (%d duplicate inline bodies merged), %d records, %d static objects; loaded in %.1fs'
                  % (len(self.units), len(self.funcs), self.dups, len(self.records), len(self.globals), self.load_s))

    def find(self, qname, sig_contains=None, cls_contains=None):
        out = []
        for f in self.by_q.get(qname, []):
            if sig_contains is not None and sig_contains not in f.id:
                continue
            if cls_contains is not None and cls_contains not in f.cls:
                continue
            out.append(f)
        return out

    def find_prefix(self, prefix):
        return [f for f in self.funcs.values() if f.q.startswith(prefix)]

    def repo_funcs(self, under=None):
        for f in self.funcs.values():
            if under is None or f.relfile.startswith(under):
                yield f
