"""E5 helpers: how is an lvalue (global, parameter, member) used at a reference site?

classify_use walks from a DeclRefExpr / MemberExpr upwards through the expression tree and returns one of
  ('read', None)                 value read or bound to a const reference / pointer-to-const
  ('write', node)                assigned, incremented, compound-assigned
  ('mutcall', (node, callee))    receiver of a non-const member function / operator
  ('escape', (node, callee))     bound to a non-const reference/pointer parameter of a call or constructor
  ('alias', node)                initialises a local non-const reference / pointer, or is returned by non-const reference
  ('addr', node)                 address taken and not immediately const-qualified
  ('discard', None)              value unused
"""
from .facts import child, strip

ASSIGN_OPS = ('=', '+=', '-=', '*=', '/=', '%=', '&=', '|=', '^=', '<<=', '>>=')


def is_const_type(t):
    t = t.strip()
    return t.startswith('const ') or ' const' in t.split('<')[0]


def _unqual_ptr(t):
    """'void *__restrict' / 'char *const' -> the pointer type without the qualifiers of the pointer itself"""
    t = t.strip()
    changed = True
    while changed:
        changed = False
        for q in ('__restrict', 'restrict', 'const', 'volatile'):
            if t.endswith(q) and t[:-len(q)].rstrip().endswith(('*', '&')):
                t = t[:-len(q)].rstrip()
                changed = True
    return t


def ref_is_const(t):
    """for 'T &' / 'T *' / 'T &&' type strings: is the referee const?"""
    t = _unqual_ptr(t)
    for suf in ('&&', '&', '*'):
        if t.endswith(suf):
            base = t[:-len(suf)].strip()
            return base.startswith('const ') or base.endswith(' const')
    return True  # by value


def is_ref_or_ptr(t):
    t = _unqual_ptr(t)
    return t.endswith('&') or t.endswith('*')


def classify_use(f, n):
    cur = n
    while True:
        p = f.parent(cur)
        if p is None:
            return ('discard', None)
        k = p['k']
        if k in ('ParenExpr', 'ExprWithCleanups', 'ConstantExpr', 'FullExpr', 'MaterializeTemporaryExpr', 'CXXBindTemporaryExpr'):
            cur = p
            continue
        if k in ('ImplicitCastExpr', 'CXXStaticCastExpr', 'CStyleCastExpr', 'CXXFunctionalCastExpr', 'CXXConstCastExpr', 'CXXReinterpretCastExpr'):
            ck = p.get('ck')
            if ck == 'LValueToRValue':
                return ('read', None)
            t = f.type(p)
            if ck == 'ArrayToPointerDecay':
                if t.rstrip(' *').startswith('const ') or 'const' in t.split('*')[0].split('<')[0]:
                    return ('read', None)
                cur = p
                continue
            if ck in ('NoOp', 'DerivedToBase', 'UncheckedDerivedToBase', 'BaseToDerived', 'BitCast'):
                if p.get('lv') and is_const_type(t) and k != 'CXXConstCastExpr':
                    return ('read', None)
                if not p.get('lv') and is_ref_or_ptr(t) and ref_is_const(t):
                    return ('read', None)
                cur = p
                continue
            if ck in ('ConstructorConversion', 'UserDefinedConversion'):
                cur = p
                continue
            # numeric conversions etc. operate on an already loaded value
            return ('read', None)
        if k == 'ArraySubscriptExpr':
            if p['c'][0] is cur or strip(p['c'][0], casts=False) is strip(cur, casts=False):
                cur = p
                continue
            return ('read', None)
        if k == 'MemberExpr':
            if p.get('dk') == 'Field':
                cur = p
                continue
            # member function: the call node is the parent of this MemberExpr
            call = f.parent(p)
            callee = f.callee(p)
            if callee is not None and (callee.get('const') or callee.get('static')):
                return ('read', None)
            return ('mutcall', (call if call is not None else p, callee))
        if k == 'UnaryOperator':
            op = p.get('op')
            if op in ('++', '--'):
                return ('write', p)
            if op == '&':
                t = f.type(p)
                if ref_is_const(t):
                    return ('read', None)
                cur = p
                # pointer to mutable: keep following the pointer value
                continue
            if op == '*':
                cur = p
                continue
            return ('read', None)
        if k in ('BinaryOperator', 'CompoundAssignOperator'):
            op = p.get('op')
            if op in ASSIGN_OPS:
                if p['c'][0] is cur:
                    return ('write', p)
                return ('read', None)
            if op == ',':
                if p['c'][-1] is cur:
                    cur = p
                    continue
                return ('discard', None)
            if op in ('+', '-') and is_ref_or_ptr(f.type(p)):
                cur = p
                continue
            return ('read', None)
        if k == 'ConditionalOperator':
            if p['c'][0] is cur:
                return ('read', None)
            cur = p
            continue
        if k in ('CallExpr', 'CXXMemberCallExpr', 'CXXOperatorCallExpr', 'CXXConstructExpr', 'CXXTemporaryObjectExpr', 'UserDefinedLiteral'):
            callee = f.callee(p)
            idx = None
            for i, c in enumerate(p['c']):
                if c is cur:
                    idx = i
                    break
            if callee is None or idx is None:
                return ('escape', (p, callee))
            if k == 'CXXConstructExpr' or k == 'CXXTemporaryObjectExpr':
                pi = idx
            elif k == 'CXXOperatorCallExpr':
                # c[0] = callee ref; member operators take the object as first argument
                ai = idx - 1
                if callee.get('kind') in ('opmethod', 'method', 'conv') or 'cls' in callee:
                    if ai == 0:
                        if callee.get('const'):
                            return ('read', None)
                        return ('mutcall', (p, callee))
                    pi = ai - 1
                else:
                    pi = ai
            elif k == 'CXXMemberCallExpr':
                pi = idx - 1
            else:
                pi = idx - 1
            pts = callee.get('pt', [])
            if pi < 0:
                return ('read', None)
            if pi >= len(pts):
                return ('escape', (p, callee))  # variadic
            pt = callee['_tu']['types'][pts[pi]] if '_tu' in callee else f.tu['types'][pts[pi]]
            if not is_ref_or_ptr(pt) or ref_is_const(pt):
                return ('read', None)
            return ('escape', (p, callee))
        if k == 'DeclStmt':
            for d in p.get('decls', ()):
                t = f.tu['types'][d['t']]
                if is_ref_or_ptr(t) and not ref_is_const(t):
                    return ('alias', p)
            return ('read', None)
        if k == 'ReturnStmt':
            rt = f.tu['types'][f.sym['ret']]
            if is_ref_or_ptr(rt) and not ref_is_const(rt):
                return ('alias', p)
            return ('read', None)
        if k in ('InitListExpr', 'CXXStdInitializerListExpr', 'LambdaExpr', 'CXXDefaultArgExpr', 'CXXDefaultInitExpr'):
            if k == 'LambdaExpr':
                return ('alias', p)  # captured by reference
            cur = p
            continue
        if k in ('IfStmt', 'WhileStmt', 'ForStmt', 'DoStmt', 'SwitchStmt', 'CompoundStmt', 'CaseStmt', 'DefaultStmt', 'CXXForRangeStmt'):
            if k == 'CXXForRangeStmt':
                return ('alias', p)
            return ('discard', None)
        return ('read', None)


def live_children(f, n):
    """Children of n, dropping branches that clang's constant evaluation shows dead (if with constant condition)."""
    if n['k'] == 'IfStmt':
        cond = child(n, 'cond')
        if cond is not None and 'cv' in cond:
            out = []
            for c, r in zip(n['c'], n.get('r', [])):
                if r == 'then' and cond['cv'] == 0:
                    continue
                if r == 'else' and cond['cv'] != 0:
                    continue
                out.append(c)
            return out
    return n.get('c', ())


def live_walk(f, root=None):
    roots = [root] if root is not None else f.roots()
    stack = list(reversed(roots))
    while stack:
        n = stack.pop()
        if n is None:
            continue
        yield n
        for c in reversed(list(live_children(f, n))):
            stack.append(c)
