"""Tiny linear-arithmetic layer: linear expressions over named symbols and entailment of linear inequalities by
Fourier-Motzkin elimination over the rationals (sound for the integer facts used here; strict < is encoded as <= -1)."""
from fractions import Fraction


class Lin(object):
    """sum(coef*sym) + const"""
    __slots__ = ('t', 'c')

    def __init__(self, t=None, c=0):
        self.t = {k: v for k, v in (t or {}).items() if v != 0}
        self.c = c

    @staticmethod
    def sym(name):
        return Lin({name: 1}, 0)

    @staticmethod
    def of(v):
        if isinstance(v, Lin):
            return v
        if isinstance(v, bool):
            return Lin({}, int(v))
        if isinstance(v, int):
            return Lin({}, v)
        return None

    def __add__(self, o):
        o = Lin.of(o)
        t = dict(self.t)
        for k, v in o.t.items():
            t[k] = t.get(k, 0) + v
        return Lin(t, self.c + o.c)

    def __sub__(self, o):
        o = Lin.of(o)
        return self + o.scale(-1)

    def scale(self, k):
        return Lin({a: b * k for a, b in self.t.items()}, self.c * k)

    def is_const(self):
        return not self.t

    def __repr__(self):
        parts = []
        for k in sorted(self.t):
            v = self.t[k]
            parts.append(('%s' % k) if v == 1 else ('-%s' % k if v == -1 else '%s*%s' % (v, k)))
        if self.c or not parts:
            parts.append(str(self.c))
        return ' + '.join(parts).replace('+ -', '- ')

    def key(self):
        return (tuple(sorted(self.t.items())), self.c)


class Con(object):
    """constraint  e <= 0  (e is a Lin)"""
    __slots__ = ('e',)

    def __init__(self, e):
        self.e = e

    def __repr__(self):
        return '%r <= 0' % (self.e,)


def le(a, b):
    """a <= b"""
    return Con(Lin.of(a) - Lin.of(b))


def lt(a, b):
    """a < b  (integers)"""
    return Con(Lin.of(a) - Lin.of(b) + 1)


def eq(a, b):
    return [le(a, b), le(b, a)]


def negate(c):
    """not (e <= 0)  ==  e >= 1  ==  -e + 1 <= 0"""
    return Con(c.e.scale(-1) + 1)


def unsat(cons, max_rows=4000):
    """Fourier-Motzkin: True iff the conjunction is infeasible over the rationals."""
    rows = []
    for c in cons:
        rows.append(({k: Fraction(v) for k, v in c.e.t.items()}, Fraction(c.e.c)))
    while True:
        # trivial contradictions / tautologies
        new = []
        for t, c in rows:
            t = {k: v for k, v in t.items() if v != 0}
            if not t:
                if c > 0:
                    return True
                continue
            new.append((t, c))
        rows = new
        if not rows:
            return False
        # pick the variable with the fewest pos*neg products
        vars_ = {}
        for t, c in rows:
            for k, v in t.items():
                p, n = vars_.get(k, (0, 0))
                if v > 0:
                    p += 1
                else:
                    n += 1
                vars_[k] = (p, n)
        var = min(vars_, key=lambda k: vars_[k][0] * vars_[k][1])
        pos = [(t, c) for t, c in rows if t.get(var, 0) > 0]
        neg = [(t, c) for t, c in rows if t.get(var, 0) < 0]
        rest = [(t, c) for t, c in rows if t.get(var, 0) == 0]
        for tp, cp in pos:
            for tn, cn in neg:
                a = tp[var]
                b = -tn[var]
                t = {}
                for k, v in tp.items():
                    if k != var:
                        t[k] = t.get(k, 0) + v * b
                for k, v in tn.items():
                    if k != var:
                        t[k] = t.get(k, 0) + v * a
                rest.append((t, cp * b + cn * a))
        rows = rest
        if len(rows) > max_rows:
            return False   # give up: not proven infeasible


def entails(cons, goal):
    """cons |= goal  (goal: Con or list of Con)"""
    goals = goal if isinstance(goal, list) else [goal]
    for g in goals:
        if not unsat(list(cons) + [negate(g)]):
            return False
    return True
