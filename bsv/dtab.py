"""E3: decision tables by abstract interpretation over an exact finite domain.

One designated input (the first byte of a MsgPack value, an integer interval, ...) is known exactly; everything else is TOP.
Conditions that evaluate to TOP are *choice points*: the interpreter is re-run once per choice vector (depth-first replay), so the
result for one domain cell is the set of paths, each a list of abstract actions plus the labelled guards that were assumed.
Nothing is executed: no input is constructed, TOP stays TOP, library calls are modelled by a table of primitives.
Constructs outside the supported language raise AnalysisBroken (exit 2)."""
from .facts import AnalysisBroken, child, children_with_role, strip, strip_targs


class _Top(object):
    def __repr__(self):
        return 'TOP'


TOP = _Top()


class Pos(object):
    """cursor position = entry position + k (k None = unknown)"""
    __slots__ = ('k',)

    def __init__(self, k):
        self.k = k

    def __repr__(self):
        return 'Pos(%s)' % self.k


class Opt(object):
    """std::optional: inner value, presence (None unknown) and the guard label its presence test stands for"""
    __slots__ = ('inner', 'has', 'label', 'ident')
    _n = 0

    def __init__(self, inner, label):
        self.inner = inner
        self.has = None
        self.label = label
        Opt._n += 1
        self.ident = Opt._n


class Sym(object):
    """opaque symbolic value with a tag (e.g. ('BYTE', k), 'SIZE', ('VIEW', ...))"""
    __slots__ = ('tag',)

    def __init__(self, tag):
        self.tag = tag

    def __repr__(self):
        return 'Sym(%r)' % (self.tag,)

    def __eq__(self, o):
        return isinstance(o, Sym) and o.tag == self.tag

    def __hash__(self):
        return hash(self.tag)


class Struct(object):
    __slots__ = ('fields',)

    def __init__(self, fields=None):
        self.fields = dict(fields or {})


INT_TYPES = {
    'bool': (1, False), 'char': (8, True), 'signed char': (8, True), 'unsigned char': (8, False),
    'short': (16, True), 'unsigned short': (16, False), 'int': (32, True), 'unsigned int': (32, False),
    'long': (64, True), 'unsigned long': (64, False), 'long long': (64, True), 'unsigned long long': (64, False),
    'char16_t': (16, False), 'char32_t': (32, False), 'wchar_t': (32, True), '__int128': (128, True), 'unsigned __int128': (128, False),
}


def base_type(t):
    t = t.strip()
    for q in ('const ', 'volatile '):
        while t.startswith(q):
            t = t[len(q):]
    while t.endswith('&'):
        t = t[:-1].strip()
    if t.endswith(' const'):
        t = t[:-6].strip()
    return t


def int_conv(v, t, enum_ok=True):
    """C++ integral conversion of a known integer to type t (modular for unsigned, implementation-defined==modular for signed)."""
    if not isinstance(v, int):
        return v
    bt = base_type(t)
    info = INT_TYPES.get(bt)
    if info is None:
        return v  # enums / unknown: keep the value
    bits, signed = info
    if bits == 1:
        return 1 if v != 0 else 0
    m = 1 << bits
    v &= m - 1
    if signed and v >= m >> 1:
        v -= m
    return v


def sizeof_type(t):
    bt = base_type(t)
    if bt in ('float',):
        return 4
    if bt in ('double',):
        return 8
    info = INT_TYPES.get(bt)
    if info:
        return max(1, info[0] // 8)
    return None


class Ret(Exception):
    def __init__(self, v):
        self.v = v


class Thrown(Exception):
    def __init__(self, t):
        self.t = t


class NeedChoice(Exception):
    pass


class Frame(object):
    def __init__(self, f):
        self.f = f
        self.env = {}      # decl id -> value   (locals / by-value params)
        self.alias = {}    # decl id -> lvalue key in an outer store
        self.this = None   # prefix of 'this' fields
        self.outer = None  # enclosing frame of an inlined lambda body (captured variables are looked up there)


class Path(object):
    def __init__(self):
        self.actions = []
        self.guards = []
        self.outcome = None
        self.end = None
        self.store = None


class Interp(object):
    """Interprets one entry function for one domain cell. Subclass / configure through 'model'."""

    def __init__(self, prog, model, max_depth=5, max_paths=400, max_steps=200000):
        self.prog = prog
        self.model = model
        self.max_depth = max_depth
        self.max_paths = max_paths
        self.max_steps = max_steps

    # ------------------------------------------------------------------ driver
    def run(self, f, init, body=None):
        """init(interp, frame) prepares the entry frame. Returns list of Path. body: interpret this sub-statement of f only."""
        results = []
        work = [[]]
        while work:
            decisions = work.pop()
            self.decisions = decisions
            self.dpos = 0
            self.path = Path()
            self.store = {}           # lvalue key -> value (object fields, out params, globals)
            self.off = 0              # cursor offset (None unknown)
            self.steps = 0
            self.new_choices = []
            fr = Frame(f)
            init(self, fr)
            try:
                if body is None:
                    self.exec_body(fr)
                else:
                    self.frames = {id(fr): fr}
                    self.exec(fr, body, 0)
                self.path.outcome = ('RET', None)
                self.path.actions.append(('RET', None))
            except Ret as r:
                self.path.outcome = ('RET', r.v)
                self.path.actions.append(('RET', self.show(r.v)))
            except Thrown as t:
                self.path.outcome = ('THROW', t.t)
                self.path.actions.append(('THROW', t.t))
            self.path.end = self.off
            self.path.store = self.store
            self.path.facts = getattr(self, 'facts', None)
            results.append(self.path)
            for alt in self.new_choices:
                work.append(alt)
            if len(results) > self.max_paths:
                raise AnalysisBroken('path explosion interpreting %s' % f.id)
        return results

    def show(self, v):
        if isinstance(v, bool):
            return int(v)
        if isinstance(v, int):
            return v
        if v is TOP or v is None:
            return 'T'
        if isinstance(v, Sym):
            return str(v.tag)
        if isinstance(v, Pos):
            return 'pos+%s' % v.k
        return 'T'

    def act(self, *a):
        self.path.actions.append(tuple(a))

    def choose(self, label):
        """Unknown condition: replayed decision or a new choice point (True first)."""
        if self.dpos < len(self.decisions):
            d = self.decisions[self.dpos]
        else:
            d = True
            self.new_choices.append(self.decisions[:self.dpos] + [False])
            self.decisions = self.decisions + [True]
        self.dpos += 1
        self.path.guards.append((label, d))
        return d

    # ------------------------------------------------------------------ statements
    def exec_body(self, fr, depth=0):
        f = fr.f
        for ini in f.raw.get('inits', []):
            pass
        if f.body is None:
            raise AnalysisBroken('no body for %s' % f.id)
        self.exec(fr, f.body, depth)

    def tick(self, n):
        self.steps += 1
        if self.steps > self.max_steps:
            raise AnalysisBroken('step budget exceeded at %s' % (n.get('l'),))

    def exec(self, fr, n, depth):
        if n is None:
            return
        self.tick(n)
        k = n['k']
        if k == 'CompoundStmt':
            for c in n['c']:
                self.exec(fr, c, depth)
        elif k == 'DeclStmt':
            self.exec_decl(fr, n, depth)
        elif k == 'IfStmt':
            ini = child(n, 'init')
            if ini is not None:
                self.exec(fr, ini, depth)
            var = child(n, 'var')
            if var is not None:
                self.exec(fr, var, depth)
            cond = child(n, 'cond')
            c = self.truth(fr, cond, depth)
            if c:
                self.exec(fr, child(n, 'then'), depth)
            else:
                self.exec(fr, child(n, 'else'), depth)
        elif k == 'ReturnStmt':
            v = child(n, 'value')
            raise Ret(self.ev(fr, v, depth) if v is not None else None)
        elif k in ('WhileStmt', 'ForStmt', 'DoStmt', 'CXXForRangeStmt'):
            self.exec_loop(fr, n, depth)
        elif k == 'SwitchStmt':
            self.exec_switch(fr, n, depth)
        elif k in ('NullStmt',):
            pass
        elif k == 'CXXTryStmt':
            # try block is interpreted; handlers are not modelled (a throw inside ends the path with its type)
            self.exec(fr, child(n, 'block'), depth)
        elif k in ('BreakStmt', 'ContinueStmt'):
            raise _LoopExit(k)
        elif k in ('CaseStmt', 'DefaultStmt'):
            self.exec(fr, child(n, 'sub'), depth)
        else:
            # expression statement
            self.ev(fr, n, depth)

    def exec_decl(self, fr, n, depth):
        inits = children_with_role(n, 'init')
        ii = 0
        for d in n.get('decls', ()):
            t = fr.f.tu['types'][d['t']]
            init = None
            # init children appear in declaration order for the decls that have one
            if ii < len(inits):
                init = inits[ii]
            has_init = init is not None
            if has_init:
                ii += 1
            if d.get('isref') and has_init:
                key = self.lvalue(fr, init, depth)
                if key is not None:
                    fr.alias[d['d']] = key
                    continue
                fr.env[d['d']] = self.ev(fr, init, depth)
                continue
            if has_init:
                v = self.ev(fr, init, depth)
                fr.env[d['d']] = self.coerce(v, t)
            else:
                fr.env[d['d']] = Struct() if self.is_record_type(t) else TOP

    def is_record_type(self, t):
        bt = base_type(t)
        return bt not in INT_TYPES and not bt.endswith('*') and bt not in ('float', 'double') and 'std::' not in bt and 'enum' not in bt \
            and ('ExtTypeInfo' in bt or 'Info' in bt)

    def coerce(self, v, t):
        if isinstance(v, int):
            return int_conv(v, t)
        return v

    def exec_loop(self, fr, n, depth):
        """First iteration is interpreted precisely from the pre-loop state; further iterations are summarised by
        havocking every variable the loop assigns (facts are claimed for the first iteration only)."""
        k = n['k']
        if k == 'ForStmt':
            self.exec(fr, child(n, 'init'), depth)
        bound = 'T'
        c0 = child(n, 'cond')
        c0s = strip(c0) if c0 is not None else None
        bound_node = None
        if c0s is not None and c0s['k'] == 'BinaryOperator' and c0s.get('op') in ('<', '!=', '<='):
            bound_node = c0s
            bv = self.ev(fr, c0s['c'][1], depth)
            bound = self.show(bv) if not isinstance(bv, Sym) else str(bv.tag)
        self.act('LOOP', k, bound, self.off)
        if k == 'CXXForRangeStmt':
            self.havoc_assigned(fr, n)
            self.exec_havoc_body(fr, child(n, 'body'), depth)
            self.act('ENDLOOP')
            return
        enter = True
        if k != 'DoStmt' and c0 is not None:
            cv0 = self.ev(fr, c0, depth)
            if isinstance(cv0, (int, bool)) and getattr(self.model, 'unroll_loops', False):
                # concretely decided loop condition: unroll precisely while it stays decided (bounded)
                n_iter = 0
                cur = cv0
                while isinstance(cur, (int, bool)) and cur:
                    n_iter += 1
                    if n_iter > 64:
                        raise AnalysisBroken('dtab: loop at %s does not terminate within 64 concrete iterations' % fr.f.loc(n))
                    try:
                        self.exec(fr, child(n, 'body'), depth)
                    except _LoopExit as e:
                        if e.kind == 'BreakStmt':
                            break
                    if k == 'ForStmt' and child(n, 'inc') is not None:
                        self.ev(fr, child(n, 'inc'), depth)
                    cur = self.ev(fr, c0, depth)
                if isinstance(cur, (int, bool)) or n_iter == 0:
                    self.act('ENDLOOP')
                    return
                # the condition became unknown: fall through to the summarising treatment
                enter = self.to_bool(fr, cur, c0, 'LOOP')
            else:
                enter = self.to_bool(fr, cv0, c0, 'LOOP')
        if enter:
            try:
                self.exec(fr, child(n, 'body'), depth)
            except _LoopExit as e:
                if e.kind == 'BreakStmt':
                    # the loop is left from its first iteration: the state stays precise, no further iterations
                    self.act('BREAK', fr.f.loc(n))
                    self.act('ENDLOOP')
                    return
            self.act('ITER1END', self.off)
            self.model.after_first_iteration(self, fr, n)
            if k == 'ForStmt':
                inc = child(n, 'inc')
                if inc is not None:
                    self.ev(fr, inc, depth)
            if bound_node is not None:
                lv = self.ev(fr, bound_node['c'][0], depth)
                self.act('LOOPNEXT', self.show(lv) if not isinstance(lv, Sym) else str(lv.tag), bound)
            self.havoc_assigned(fr, n)
            self.model.after_loop(self, fr, n)
        self.act('ENDLOOP')

    def exec_havoc_body(self, fr, body, depth):
        try:
            self.exec(fr, body, depth)
        except _LoopExit:
            pass

    def havoc_assigned(self, fr, loop):
        """Variables written inside a loop are unknown before/after an iteration."""
        for x in fr.f.walk(loop):
            tgt = None
            if x['k'] in ('BinaryOperator', 'CompoundAssignOperator') and x.get('op', '') in ('=', '+=', '-=', '*=', '/=', '|=', '&=', '^=', '<<=', '>>='):
                tgt = strip(x['c'][0])
            elif x['k'] == 'UnaryOperator' and x.get('op') in ('++', '--'):
                tgt = strip(x['c'][0])
            if tgt is not None and tgt['k'] == 'DeclRefExpr':
                d = tgt['d']
                if d in fr.env:
                    fr.env[d] = TOP
                elif d in fr.alias:
                    self.store[fr.alias[d]] = TOP
            elif tgt is not None and tgt['k'] == 'MemberExpr':
                key = self.lvalue(fr, tgt, 0)
                if key is not None and key in self.store and not isinstance(self.store[key], Pos):
                    self.store[key] = TOP

    def exec_switch(self, fr, n, depth):
        cond = child(n, 'cond')
        v = self.ev(fr, cond, depth)
        body = child(n, 'body')
        cases = []
        stmts = body['c'] if body['k'] == 'CompoundStmt' else [body]
        # find matching label position (flat switch bodies only)
        idx = None
        default_idx = None
        labels = []
        for i, s in enumerate(stmts):
            cur = s
            while cur is not None and cur['k'] in ('CaseStmt', 'DefaultStmt'):
                if cur['k'] == 'CaseStmt':
                    lhs = child(cur, 'lhs')
                    labels.append((i, lhs.get('cv') if lhs is not None else None))
                else:
                    default_idx = i
                cur = child(cur, 'sub')
        if isinstance(v, int):
            for i, cv in labels:
                if cv == v:
                    idx = i
                    break
            if idx is None:
                idx = default_idx
        else:
            # unknown scrutinee: choose among labels
            for i, cv in labels:
                if self.choose('SWITCH==%s@%d' % (cv, n['l'])):
                    idx = i
                    break
            if idx is None:
                idx = default_idx
        if idx is None:
            return
        try:
            for s in stmts[idx:]:
                self.exec(fr, s, depth)
        except _LoopExit as e:
            if e.kind != 'BreakStmt':
                raise

    # ------------------------------------------------------------------ truth of a condition
    def truth(self, fr, cond, depth, label_hint=None):
        v = self.ev(fr, cond, depth)
        return self.to_bool(fr, v, cond, label_hint)

    def to_bool(self, fr, v, cond, label_hint=None):
        if isinstance(v, bool):
            return v
        if isinstance(v, int):
            return v != 0
        if isinstance(v, Opt):
            if v.has is None:
                v.has = self.choose(v.label)
            return v.has
        label = None
        if isinstance(v, Sym) and isinstance(v.tag, tuple) and v.tag and v.tag[0] == 'GUARD':
            label = v.tag[1]
        if label is None:
            label = self.model.label_condition(self, fr, cond) or ('%s@%s' % (label_hint or 'COND', fr.f.loc(cond)))
        return self.choose(label)

    # ------------------------------------------------------------------ lvalues
    def lvalue(self, fr, n, depth):
        """Returns a key naming the storage designated by n, or None."""
        n0 = n
        while n is not None and n['k'] in ('ImplicitCastExpr', 'ParenExpr', 'MaterializeTemporaryExpr', 'ExprWithCleanups', 'CXXStaticCastExpr',
                                           'CXXConstCastExpr', 'CXXReinterpretCastExpr', 'CStyleCastExpr', 'CXXFunctionalCastExpr'):
            if n.get('ck') == 'LValueToRValue':
                return None
            n = n['c'][0] if n.get('c') else None
        if n is None:
            return None
        k = n['k']
        if k == 'DeclRefExpr':
            d = n['d']
            if n.get('g'):
                return 'G:' + n.get('q', n['n'])
            cur = fr
            while cur is not None:
                if d in cur.alias:
                    return cur.alias[d]
                if d in cur.env:
                    return ('L', id(cur), d)
                cur = cur.outer
            return ('L', id(fr), d)
        if k == 'MemberExpr' and n.get('dk') == 'Field':
            base = n['c'][0] if n.get('c') else None
            if base is not None and strip(base)['k'] == 'CXXThisExpr':
                return 'this.' + n['m']
            bk = self.lvalue(fr, base, depth)
            if bk is None:
                return None
            if isinstance(bk, tuple):
                return (bk, n['m'])
            return bk + '.' + n['m']
        if k == 'ArraySubscriptExpr':
            bk = self.lvalue(fr, n['c'][0], depth)
            idx = self.ev(fr, n['c'][1], depth)
            if bk is None or not isinstance(idx, int):
                return None
            if isinstance(bk, tuple):
                return (bk, idx)
            return '%s[%d]' % (bk, idx)
        if k == 'UnaryOperator' and n.get('op') == '*':
            return None
        return None

    def read_key(self, fr, key):
        if isinstance(key, tuple) and key[0] == 'L':
            frid, d = key[1], key[2]
            fr2 = self.frames.get(frid)
            if fr2 is not None and d in fr2.env:
                return fr2.env[d]
            return TOP
        if isinstance(key, tuple):
            base = self.read_key(fr, key[0])
            if isinstance(base, Struct):
                return base.fields.get(key[1], TOP)
            if isinstance(base, (list, tuple)) and isinstance(key[1], int) and 0 <= key[1] < len(base):
                return self.from_const(base[key[1]])
            if isinstance(base, dict):
                return self.from_const(base.get(key[1], TOP))
            return TOP
        if key in self.store:
            return self.store[key]
        if isinstance(key, str):
            acc = self.split_key(key)
            if acc is not None:
                base_key, fld = acc
                base = self.read_key(fr, base_key)
                if isinstance(fld, int):
                    if isinstance(base, (list, tuple)) and 0 <= fld < len(base):
                        return self.from_const(base[fld])
                    return TOP
                if isinstance(base, Struct):
                    return base.fields.get(fld, TOP)
                if isinstance(base, dict):
                    return self.from_const(base.get(fld, TOP))
                if base is not TOP and base is not None:
                    return TOP
            if key.startswith('G:'):
                return self.model.global_value(self, key[2:])
        return self.model.initial_store(self, key)

    @staticmethod
    def split_key(key):
        """'a.b[3].c' -> ('a.b[3]', 'c'); 'x[3]' -> ('x', 3); roots ('this.f', 'out.f', 'G:name') -> None"""
        if key.endswith(']') and '[' in key:
            b, idx = key[:-1].rsplit('[', 1)
            try:
                return b, int(idx)
            except ValueError:
                return None
        root_end = 0
        if key.startswith('G:'):
            root_end = len(key)
            for i, ch in enumerate(key):
                if i > 2 and ch in '.[' and not key.startswith('..', i):
                    root_end = i
                    break
            # a '.' inside 'G:' names never occurs (qualified names use '::')
        elif key.startswith('this.') or key.startswith('out.'):
            first = key.index('.')
            nxt = [i for i in (key.find('.', first + 1), key.find('[', first + 1)) if i >= 0]
            root_end = min(nxt) if nxt else len(key)
        if '.' in key[root_end:]:
            b, fld = key.rsplit('.', 1)
            return b, fld
        return None

    def from_const(self, v):
        if isinstance(v, dict):
            return dict(v)
        return v

    def write_key(self, fr, key, v):
        if isinstance(key, tuple) and key[0] == 'L':
            fr2 = self.frames.get(key[1])
            if fr2 is not None:
                fr2.env[key[2]] = v
            return
        if isinstance(key, tuple):
            base = self.read_key(fr, key[0])
            if isinstance(base, Struct):
                base.fields[key[1]] = v
                return
            if base is TOP or base is None:
                s = Struct({key[1]: v})
                self.write_key(fr, key[0], s)
            return
        if isinstance(key, str):
            acc = self.split_key(key)
            if acc is not None and not isinstance(acc[1], int):
                base = self.read_key(fr, acc[0])
                if isinstance(base, Struct):
                    base.fields[acc[1]] = v
                    self.model.on_store(self, fr, key, v)
                    return
        self.store[key] = v
        self.model.on_store(self, fr, key, v)

    # ------------------------------------------------------------------ expressions
    frames = None

    def ev(self, fr, n, depth):
        if n is None:
            return TOP
        if self.frames is None:
            self.frames = {}
        self.frames[id(fr)] = fr
        self.tick(n)
        k = n['k']
        if 'cv' in n and k not in ('DeclRefExpr', 'MemberExpr') and not n.get('lv'):
            # clang already evaluated this expression (no side effects by construction of EvaluateAsInt(SE_NoSideEffects))
            return n['cv']
        if k in ('ParenExpr', 'ExprWithCleanups', 'MaterializeTemporaryExpr', 'CXXBindTemporaryExpr', 'ConstantExpr', 'SubstNonTypeTemplateParmExpr', 'FullExpr'):
            return self.ev(fr, n['c'][0], depth)
        if k in ('ImplicitCastExpr', 'CXXStaticCastExpr', 'CStyleCastExpr', 'CXXFunctionalCastExpr', 'CXXReinterpretCastExpr', 'CXXConstCastExpr'):
            return self.ev_cast(fr, n, depth)
        if k in ('IntegerLiteral', 'CharacterLiteral', 'CXXBoolLiteralExpr'):
            return n.get('cv', TOP)
        if k in ('CXXNullPtrLiteralExpr', 'GNUNullExpr'):
            return 0
        if k in ('FloatingLiteral', 'StringLiteral', 'CXXThisExpr', 'ImplicitValueInitExpr', 'CXXScalarValueInitExpr', 'UnaryExprOrTypeTraitExpr',
                 'LambdaExpr', 'CXXStdInitializerListExpr'):
            return TOP
        if k == 'DeclRefExpr':
            if n.get('dk') == 'EnumConstant':
                return n.get('cv', TOP)
            if 'cv' in n:
                return n['cv']
            key = self.lvalue(fr, n, depth)
            if key is None:
                return TOP
            v = self.read_key(fr, key)
            return v
        if k == 'MemberExpr':
            if n.get('dk') == 'Field':
                key = self.lvalue(fr, n, depth)
                if key is not None:
                    v = self.read_key(fr, key)
                    if v is not TOP:
                        return v
                base = self.ev(fr, n['c'][0], depth) if n.get('c') else TOP
                if isinstance(base, Struct):
                    return base.fields.get(n['m'], TOP)
                if isinstance(base, dict):
                    return base.get(n['m'], TOP)
                mv = self.model.member_value(self, fr, n, base)
                return mv
            if n.get('g') and 'cv' in n:
                return n['cv']
            if n.get('g'):
                return self.model.global_value(self, n.get('q', n['m']))
            return TOP
        if k == 'ArraySubscriptExpr':
            base = self.ev(fr, n['c'][0], depth)
            idx = self.ev(fr, n['c'][1], depth)
            if isinstance(base, (list, tuple)) and isinstance(idx, int):
                if 0 <= idx < len(base):
                    return self.from_const(base[idx])
                self.act('OOB', idx)
                return TOP
            if isinstance(base, Pos) and isinstance(idx, int) and base.k is not None:
                return self.model.deref(self, fr, n, Pos(base.k + idx))      # p[i] == *(p + i)
            return TOP
        if k == 'UnaryOperator':
            return self.ev_unary(fr, n, depth)
        if k in ('BinaryOperator', 'CompoundAssignOperator'):
            return self.ev_binary(fr, n, depth)
        if k == 'ConditionalOperator':
            c = self.truth(fr, n['c'][0], depth)
            return self.ev(fr, n['c'][1] if c else n['c'][2], depth)
        if k == 'CXXThrowExpr':
            raise Thrown(n.get('tt', 'rethrow'))
        if k in ('CallExpr', 'CXXMemberCallExpr', 'CXXOperatorCallExpr'):
            return self.ev_call(fr, n, depth)
        if k in ('CXXConstructExpr', 'CXXTemporaryObjectExpr'):
            return self.model.construct(self, fr, n, depth)
        if k == 'InitListExpr':
            return TOP
        if k in ('CXXDefaultArgExpr', 'CXXDefaultInitExpr'):
            return self.ev(fr, n['c'][0], depth) if n.get('c') else TOP
        if k == 'OpaqueValueExpr':
            return self.ev(fr, n['c'][0], depth) if n.get('c') else TOP
        if k in ('CXXNewExpr', 'CXXDeleteExpr', 'CXXTypeidExpr', 'CXXNoexceptExpr', 'SizeOfPackExpr', 'TypeTraitExpr', 'PredefinedExpr'):
            return n.get('cv', TOP)
        raise AnalysisBroken('dtab: expression kind %s at %s is outside the interpreter language' % (k, fr.f.loc(n)))

    def ev_cast(self, fr, n, depth):
        ck = n.get('ck')
        sub = n['c'][0]
        if ck == 'LValueToRValue':
            return self.ev(fr, sub, depth)
        v = self.ev(fr, sub, depth)
        t = fr.f.type(n)
        if ck in ('IntegralCast', 'IntegralToBoolean', 'BooleanToSignedIntegral'):
            if isinstance(v, int):
                return int_conv(v, t)
            if v is TOP or v is None:
                return TOP
            return self.cast_other(v, t)
        if ck in ('NoOp', 'ArrayToPointerDecay', 'FunctionToPointerDecay', 'DerivedToBase', 'UncheckedDerivedToBase', 'BitCast',
                  'ConstructorConversion', 'NullToPointer', 'BuiltinFnToFnPtr', 'LValueBitCast', 'BaseToDerived', 'Dependent', 'ToVoid'):
            return v
        if ck == 'UserDefinedConversion':
            return v
        if ck in ('IntegralToFloating', 'FloatingCast', 'FloatingToIntegral', 'FloatingToBoolean', 'PointerToBoolean', 'PointerToIntegral',
                  'IntegralToPointer', 'MemberPointerToBoolean'):
            if ck == 'PointerToBoolean' and isinstance(v, int):
                return 1 if v else 0
            return TOP
        return v

    def cast_other(self, v, t):
        """integral conversion of a non-constant abstract value (symbolic values keep their identity by default)"""
        return v

    def ev_unary(self, fr, n, depth):
        op = n.get('op')
        sub = n['c'][0]
        if op in ('++', '--'):
            key = self.lvalue(fr, sub, depth)
            old = self.ev(fr, sub, depth)
            delta = 1 if op == '++' else -1
            new = self.add(old, delta, fr.f.type(n))
            if key is not None:
                self.write_key(fr, key, new)
            return old if n.get('post') else new
        if op == '&':
            key = self.lvalue(fr, sub, depth)
            if key is None:
                return self.model.address_of(self, fr, sub, depth)
            return Sym(('ADDR', key))
        if op == '*':
            v = self.ev(fr, sub, depth)
            if isinstance(v, Sym) and isinstance(v.tag, tuple) and v.tag[0] == 'ADDR':
                return self.read_key(fr, v.tag[1])
            return self.model.deref(self, fr, n, v)
        v = self.ev(fr, sub, depth)
        if op == '!':
            if isinstance(v, Opt):
                return 0 if self.to_bool(fr, v, sub) else 1
            if isinstance(v, int):
                return 0 if v else 1
            b = self.to_bool(fr, v, sub)
            return 0 if b else 1
        if isinstance(v, int):
            t = fr.f.type(n)
            if op == '-':
                return int_conv(-v, t)
            if op == '~':
                return int_conv(~v, t)
            if op == '+':
                return v
        return self.model.unary(self, fr, n, op, v)

    def add(self, v, delta, t):
        if isinstance(v, Pos):
            if v.k is None or not isinstance(delta, int):
                return Pos(None)
            if isinstance(v.k, tuple):
                return Pos(('LIN', v.k[1] + delta))
            return Pos(v.k + delta)
        if isinstance(v, int) and isinstance(delta, int):
            return int_conv(v + delta, t)
        if isinstance(delta, Pos):
            return self.add(delta, v, t)
        if v is not TOP and v is not None:
            return self.model.arith(self, None, None, '+', v, delta)
        return TOP

    def ev_binary(self, fr, n, depth):
        op = n['op']
        L, R = n['c'][0], n['c'][1]
        if op == '&&':
            a = self.truth(fr, L, depth)
            if not a:
                return 0
            return 1 if self.truth(fr, R, depth) else 0
        if op == '||':
            a = self.truth(fr, L, depth)
            if a:
                return 1
            return 1 if self.truth(fr, R, depth) else 0
        if op == ',':
            self.ev(fr, L, depth)
            return self.ev(fr, R, depth)
        if op == '=':
            v = self.ev(fr, R, depth)
            key = self.lvalue(fr, L, depth)
            v = self.coerce(v, fr.f.type(L))
            if key is not None:
                self.write_key(fr, key, v)
            else:
                self.model.store_through(self, fr, L, v, depth)
            return v
        if n['k'] == 'CompoundAssignOperator':
            key = self.lvalue(fr, L, depth)
            a = self.ev(fr, L, depth)
            b = self.ev(fr, R, depth)
            r = self.arith(op[:-1], a, b, fr.f.type(n), n, fr)
            if key is not None:
                self.write_key(fr, key, r)
            return r
        a = self.ev(fr, L, depth)
        b = self.ev(fr, R, depth)
        if op in ('==', '!=', '<', '<=', '>', '>='):
            return self.compare(fr, n, op, a, b)
        return self.arith(op, a, b, fr.f.type(n), n, fr)

    def arith(self, op, a, b, t, n, fr):
        if isinstance(a, int) and isinstance(b, int):
            try:
                if op == '+':
                    r = a + b
                elif op == '-':
                    r = a - b
                elif op == '*':
                    r = a * b
                elif op == '/':
                    if b == 0:
                        return TOP
                    r = abs(a) // abs(b) * (1 if (a >= 0) == (b >= 0) else -1)
                elif op == '%':
                    if b == 0:
                        return TOP
                    r = abs(a) % abs(b) * (1 if a >= 0 else -1)
                elif op == '&':
                    r = a & b
                elif op == '|':
                    r = a | b
                elif op == '^':
                    r = a ^ b
                elif op == '<<':
                    r = a << b if 0 <= b < 128 else 0
                elif op == '>>':
                    r = a >> b if 0 <= b < 128 else 0
                else:
                    return TOP
            except (ValueError, OverflowError):
                return TOP
            return int_conv(r, t)
        if op == '+':
            if isinstance(a, Pos) or isinstance(b, Pos):
                p, o = (a, b) if isinstance(a, Pos) else (b, a)
                if isinstance(o, int):
                    return self.add(p, o, t)
                if isinstance(o, Sym) and o.tag == 'DATA':
                    return Sym(('PTR', p.k))
                return self.model.arith(self, fr, n, op, a, b)
        if op == '-' and isinstance(a, Pos) and isinstance(b, int):
            return self.add(a, -b, t)
        if op == '&' and ((isinstance(a, int) and a == 0) or (isinstance(b, int) and b == 0)):
            return 0
        return self.model.arith(self, fr, n, op, a, b)

    def compare(self, fr, n, op, a, b):
        if isinstance(a, bool):
            a = int(a)
        if isinstance(b, bool):
            b = int(b)
        if isinstance(a, int) and isinstance(b, int):
            r = {'==': a == b, '!=': a != b, '<': a < b, '<=': a <= b, '>': a > b, '>=': a >= b}[op]
            return 1 if r else 0
        g = self.model.compare(self, fr, n, op, a, b)
        return g

    # ------------------------------------------------------------------ calls
    def ev_call(self, fr, n, depth):
        callee = fr.f.callee(n)
        if callee is None:
            raise AnalysisBroken('dtab: unresolved call at %s' % fr.f.loc(n))
        r = self.model.primitive(self, fr, n, callee, depth)
        if r is not NotImplemented:
            return r
        g = self.prog.funcs.get(callee['id'])
        if g is None or depth >= self.max_depth:
            # opaque call: arguments are evaluated for their effects
            for a in n['c'][1:] if n['k'] != 'CXXOperatorCallExpr' else n['c'][1:]:
                self.ev(fr, a, depth)
            self.act('CALL', strip_targs(callee['q']))
            return TOP
        return self.inline(fr, n, g, depth)

    def call_args(self, fr, n):
        k = n['k']
        if k == 'CXXMemberCallExpr':
            me = strip(n['c'][0], casts=False)
            obj = me['c'][0] if me.get('c') else None
            return obj, n['c'][1:]
        if k == 'CXXOperatorCallExpr':
            callee = fr.f.callee(n)
            args = n['c'][1:]
            if callee is not None and 'cls' in callee and not callee.get('static'):
                return args[0], args[1:]
            return None, args
        return None, n['c'][1:]

    def inline(self, fr, n, g, depth):
        obj, args = self.call_args(fr, n)
        nf = Frame(g)
        self.frames[id(nf)] = nf
        if g.sym.get('kind') == 'lambda' or '(lambda at' in g.id or '(anonymous class)::operator()' in (g.q or ''):   # incl. instantiations of a generic lambda
            nf.outer = fr       # a lambda called in the scope that created it: its captures are the creator's variables
        for i, p in enumerate(g.params):
            if i >= len(args):
                nf.env[p['d']] = TOP
                continue
            a = args[i]
            pt = g.tu['types'][p['t']]
            if pt.rstrip().endswith('&'):
                key = self.lvalue(fr, a, depth)
                if key is not None:
                    nf.alias[p['d']] = key
                    continue
                nf.env[p['d']] = self.ev(fr, a, depth)
            else:
                nf.env[p['d']] = self.coerce(self.ev(fr, a, depth), pt)
        self.act('ENTER', strip_targs(g.q))
        try:
            self.exec(nf, g.body, depth + 1)
            rv = None
        except Ret as r:
            rv = r.v
        self.act('LEAVE', strip_targs(g.q))
        if isinstance(rv, int):
            rv = int_conv(rv, g.tu['types'][g.sym['ret']])
        return rv if rv is not None else TOP


class _LoopExit(Exception):
    def __init__(self, kind):
        self.kind = kind


class Model(object):
    """Hooks that give meaning to library primitives and unknown conditions; override per domain."""

    def label_condition(self, it, fr, cond):
        return None

    def global_value(self, it, q):
        return TOP

    def initial_store(self, it, key):
        return TOP

    def on_store(self, it, fr, key, v):
        pass

    def member_value(self, it, fr, n, base):
        return TOP

    def unary(self, it, fr, n, op, v):
        """unary operator on a non-constant abstract value"""
        return TOP

    def address_of(self, it, fr, sub, depth):
        """&expr where expr designates no tracked storage"""
        return TOP

    def deref(self, it, fr, n, v):
        return TOP

    def arith(self, it, fr, n, op, a, b):
        return TOP

    def compare(self, it, fr, n, op, a, b):
        return TOP

    def construct(self, it, fr, n, depth):
        vals = [it.ev(fr, a, depth) for a in n.get('c', ())]
        return self.construct_record(it, fr, n, depth, vals)

    def construct_record(self, it, fr, n, depth, vals):
        """Aggregate-like repo records: a Struct whose fields come from the constructor's member initialisers
        (default member initialisers are CXXDefaultInitExpr children, already evaluated by clang where constant)."""
        callee = fr.f.callee(n)
        if callee is None or not callee.get('repo'):
            return TOP
        g = it.prog.funcs.get(callee['id'])
        if g is None:
            return TOP
        body = g.body
        if body is not None and body.get('c'):
            return TOP  # constructor with a real body: not modelled
        nf = Frame(g)
        it.frames[id(nf)] = nf
        for i, p in enumerate(g.params):
            nf.env[p['d']] = vals[i] if i < len(vals) else TOP
        st = Struct()
        for ini in g.raw.get('inits', []):
            if 'field' in ini:
                st.fields[ini['field']] = it.ev(nf, ini['e'], depth + 1)
        return st

    def store_through(self, it, fr, lhs, v, depth):
        it.ev(fr, lhs, depth)

    def primitive(self, it, fr, n, callee, depth):
        return NotImplemented

    def after_loop(self, it, fr, n):
        pass

    def after_first_iteration(self, it, fr, n):
        pass
