"""Model base for window / pointer arithmetic over symbolic linear forms (engine E9).

Values are bsv.linear.Lin; path facts are it.facts (reset by the caller's init) plus the decisions taken on
('LIN', op, a, b) guards. need() records a proof obligation: the constraint must be entailed by the path so far."""
from bsv.dtab import TOP, Model, Sym
from bsv.linear import Lin, entails, eq, le, lt, unsat

NEG = {'<': '>=', '<=': '>', '>': '<=', '>=': '<', '==': '!=', '!=': '=='}


def rel(op, a, b):
    """constraints of (a op b), None when not a conjunction of linear inequalities (!=)"""
    return {'<': lambda: [lt(a, b)], '<=': lambda: [le(a, b)], '>': lambda: [lt(b, a)], '>=': lambda: [le(b, a)],
            '==': lambda: eq(a, b), '!=': lambda: None}[op]()


class LinModel(Model):
    def cons(self, it):
        out = list(getattr(it, 'facts', None) or [])
        for lab, d in it.path.guards:
            if isinstance(lab, tuple) and lab and lab[0] == 'LIN':
                op = lab[1] if d else NEG[lab[1]]
                r = rel(op, lab[2], lab[3])
                if r:
                    out.extend(r)
                elif op == '!=':
                    # a != b together with a known order is a strict inequality
                    if entails(out, [le(lab[2], lab[3])]):
                        out.append(lt(lab[2], lab[3]))
                    elif entails(out, [le(lab[3], lab[2])]):
                        out.append(lt(lab[3], lab[2]))
        return out

    def feasible(self, it):
        return not unsat(self.cons(it))

    def fresh(self, it, name, lo=None, hi=None):
        n = getattr(it, 'n_fresh', 0)
        it.n_fresh = n + 1
        s = Lin.sym('%s#%d' % (name, n))
        if lo is not None:
            it.facts.append(le(lo, s))
        if hi is not None:
            it.facts.append(le(s, hi))
        return s

    def need(self, it, fr, n, what, cons_list):
        c = self.cons(it)
        ok = all(entails(c, [x]) for x in cons_list)
        it.act('NEED', what, fr.f.loc(n), ok)
        return ok

    def lin_compare(self, it, fr, n, op, la, lb):
        c = self.cons(it)
        t, f = rel(op, la, lb), rel(NEG[op], la, lb)
        if t is not None and entails(c, t):
            return 1
        if f is not None and entails(c, f):
            return 0
        if t is None and unsat(c + f):
            return 1
        if f is None and unsat(c + t):
            return 0
        return Sym(('GUARD', ('LIN', op, la, lb)))

    def compare(self, it, fr, n, op, a, b):
        la, lb = Lin.of(a), Lin.of(b)
        if la is None or lb is None:
            return Sym(('GUARD', 'OPAQUE@%s' % fr.f.loc(n)))
        return self.lin_compare(it, fr, n, op, la, lb)

    @staticmethod
    def wrap_const(fr, n, r):
        """a constant result of unsigned arithmetic is reduced modulo 2^width (npos + 1 == 0): symbolic forms are left to the rules' own
        range obligations, constants must not silently leave the type"""
        if r is not None and r.is_const():
            from bsv.dtab import INT_TYPES, base_type
            info = INT_TYPES.get(base_type(fr.f.type(n)))
            if info is not None and not info[1] and info[0] > 1 and not (0 <= r.c < (1 << info[0])):
                return Lin.of(r.c % (1 << info[0]))
        return r

    def arith(self, it, fr, n, op, a, b):
        la, lb = Lin.of(a), Lin.of(b)
        if la is None or lb is None:
            return TOP
        if op == '+':
            return self.wrap_const(fr, n, la + lb)
        if op == '-':
            return self.wrap_const(fr, n, la - lb)
        if op == '*' and (la.is_const() or lb.is_const()):
            return lb.scale(la.c) if la.is_const() else la.scale(lb.c)
        if op == '%' and lb.is_const() and lb.c > 0:
            if lb.c == 1:
                return Lin.of(0)
            if la.is_const():
                return Lin.of(la.c % lb.c)
            # remainder of a non-negative dividend: 0 <= r <= k-1, r <= dividend
            r = self.fresh(it, 'rem%d' % lb.c, 0, lb.c - 1)
            it.facts.append(le(r, la))
            return r
        return TOP


class LinInterp(object):
    """mixin: linear forms survive integral conversions"""

    def cast_other(self, v, t):
        return v

    def coerce(self, v, t):
        if isinstance(v, Lin):
            return v
        return super(LinInterp, self).coerce(v, t)
