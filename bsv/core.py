"""Report / evidence / known-findings machinery shared by all property checks."""
import hashlib
import json
import os
import sys
import time

from .facts import VERIF, AnalysisBroken

KNOWN_FILE = os.path.join(VERIF, 'known_findings.json')
EVIDENCE_DIR = os.environ.get('BSV_EVIDENCE_DIR') or os.path.join(VERIF, 'evidence')     # trials on scratch worktrees write elsewhere
OUT_DIR = os.path.join(VERIF, 'out')


class Rule(object):
    def __init__(self, name, text, floor=1, design=''):
        self.name = name
        self.text = text
        self.floor = floor
        self.design = design
        self.instances = 0
        self.discharged = 0
        self.findings = 0
        self.nontrivial = set()


class Report(object):
    def __init__(self, prop, tier):
        self.prop = prop
        self.tier = tier
        self.rules = {}
        self.order = []
        self.findings = []
        self.samples = []
        self.notes = []
        self.extra = {}
        self.functions_analysed = set()
        self.t0 = time.time()

    def rule(self, name, text, floor=1, design=''):
        if name not in self.rules:
            self.rules[name] = Rule(name, text, floor, design)
            self.order.append(name)
        return self.rules[name]

    def touch(self, func):
        if func is not None:
            self.functions_analysed.add(func.id if hasattr(func, 'id') else str(func))

    def ok(self, rule, site, sample=None, nontrivial=True):
        r = self.rules[rule]
        r.instances += 1
        r.discharged += 1
        if nontrivial:
            r.nontrivial.add(site)
        if sample is not None and len([s for s in self.samples if s.get('rule') == rule]) < 3:
            self.samples.append({'rule': rule, 'site': site, 'verdict': 'discharged', 'detail': sample})

    def finding(self, rule, key, where, msg, detail=None, func=None, count=1):
        """A violated obligation. key must be stable across unrelated edits (no line numbers).
        count = number of domain cells (obligations) this one finding stands for."""
        r = self.rules[rule]
        r.instances += count
        r.findings += 1
        r.nontrivial.add(key)
        full = '%s|%s' % (rule, key)
        for f in self.findings:
            if f['key'] == full:
                f.setdefault('also', []).append(where)
                return
        self.findings.append({'rule': rule, 'key': full, 'where': where, 'msg': msg, 'detail': detail or {},
                              'function': func or ''})

    def note(self, msg):
        self.notes.append(msg)

    def broken(self, msg):
        raise AnalysisBroken(msg)

    def defer_broken(self, msg):
        """a rule cannot model what it found: the remaining rules still run; the run ends as analysis-broken unless they report a violation
        (which is then the verdict, with this message printed next to it)"""
        if not hasattr(self, 'deferred'):
            self.deferred = []
        self.deferred.append(msg)


def load_known():
    if not os.path.exists(KNOWN_FILE):
        return {'findings': [], 'fixed': []}
    with open(KNOWN_FILE) as fh:
        return json.load(fh)


def finish(rep, level, explanation, assumptions, trusted_base, seed=0, checker_cmd=''):
    """Checks floors, separates known findings from violations, writes evidence, returns exit code."""
    prop = rep.prop
    # floors: a rule that matched fewer instances than confirmed by hand is analysis-broken
    floor_miss = None
    for name in rep.order:
        r = rep.rules[name]
        if r.instances < r.floor and floor_miss is None:
            floor_miss = ('rule %s matched %d instance(s), below its confirmed floor of %d - '
                          'an anchor vanished or the instantiation witnesses no longer cover it' % (name, r.instances, r.floor))
    known = load_known()
    known_keys = {}
    for k in known.get('findings', []):
        if k.get('property') == prop:
            known_keys[k['key']] = k
    violations = []
    known_hit = []
    for f in rep.findings:
        if f['key'] in known_keys:
            known_hit.append((f, known_keys[f['key']]))
        else:
            violations.append(f)
    stale = [k for k in known_keys if k not in {f['key'] for f in rep.findings} and known_keys[k].get('tier', rep.tier) == rep.tier]
    for msg in getattr(rep, 'deferred', []):
        if floor_miss is None:
            floor_miss = msg
        else:
            rep.notes.append(msg)
    if floor_miss:
        if not violations:
            raise AnalysisBroken(floor_miss)
        # a construct that a sibling rule reports as violated often also drops out of the instance count of the rule next to it: the
        # violation is the verdict, the missed floor is reported with it
        rep.notes.append(floor_miss + ' (reported together with the violation(s) below)')

    print('== %s (%s tier): rules and instances' % (prop, rep.tier))
    for name in rep.order:
        r = rep.rules[name]
        print('  %-8s instances=%-5d discharged=%-5d findings=%-3d floor=%-4d %s' % (name, r.instances, r.discharged, r.findings, r.floor, r.text))
    for n in rep.notes:
        print('  note: ' + n)
    for f, k in known_hit:
        print('KNOWN-FINDING: property=%s %s [%s at %s]' % (prop, k.get('what', f['msg']), f['key'], f['where']))
    for k in stale:
        print('  stale known-finding entry (no longer derived, prune it): %s' % k)
    vio_dir = os.path.join(OUT_DIR, 'violations', prop)
    if violations:
        os.makedirs(vio_dir, exist_ok=True)
    for f in violations:
        h = hashlib.sha1(f['key'].encode()).hexdigest()[:12]
        path = os.path.join(vio_dir, h + '.json')
        with open(path, 'w') as fh:
            json.dump({'property': prop, 'rule': f['rule'], 'rule_text': rep.rules[f['rule']].text, 'key': f['key'],
                       'where': f['where'], 'function': f['function'], 'message': f['msg'], 'detail': f['detail'],
                       'also': f.get('also', []),
                       'how_to_reproduce': 'cd /verif && python3 bsverify.py --property %s --tier %s' % (prop, rep.tier)}, fh, indent=1)
        print('  violated: %s at %s: %s' % (f['key'], f['where'], f['msg']))
        print('VIOLATION property=%s replay=%s' % (prop, path))

    obligations = sum(r.instances for r in rep.rules.values())
    discharged = sum(r.discharged for r in rep.rules.values())
    nontrivial = set()
    for r in rep.rules.values():
        for s in r.nontrivial:
            nontrivial.add((r.name, s))
    samples = list(rep.samples[:12])
    for f in rep.findings[:20]:
        samples.append({'rule': f['rule'], 'site': f['where'], 'verdict': 'known-finding' if f['key'] in known_keys else 'VIOLATION',
                        'key': f['key'], 'detail': f['msg']})
    if not samples:
        samples.append({'note': 'no obligations'})
    cov = {
        'evaluations': max(obligations, 1),
        'distinct_nontrivial': len(nontrivial),
        'rule': 'obligation = rule instance x site x template instantiation; non-trivial = distinct (rule, site) pairs whose '
                'examined path contains at least one branch or call. Rules: ' + '; '.join('%s: %s' % (n, rep.rules[n].text) for n in rep.order),
        'samples': samples,
        'obligations': obligations,
        'discharged': discharged + len(known_hit),
        'explanation': explanation,
        'checker_cmd': checker_cmd or ('python3 bsverify.py --property %s --tier %s' % (prop, rep.tier)),
        'trusted_base': trusted_base,
        'functions_analysed': len(rep.functions_analysed),
        'rules': {n: {'instances': rep.rules[n].instances, 'discharged': rep.rules[n].discharged, 'findings': rep.rules[n].findings,
                      'floor': rep.rules[n].floor} for n in rep.order},
        'known_findings': [f['key'] for f, _ in known_hit],
        'violations': [f['key'] for f in violations],
        'exhaustive': True,
    }
    cov.update(rep.extra)
    ev = {
        'property_id': prop,
        'tier': rep.tier,
        'seed': seed,
        'level': level,
        'coverage': cov,
        'assumptions': assumptions,
        'wall_s': round(time.time() - rep.t0, 2),
        'violations': len(violations),
    }
    os.makedirs(EVIDENCE_DIR, exist_ok=True)
    with open(os.path.join(EVIDENCE_DIR, prop + '.json'), 'w') as fh:
        json.dump(ev, fh, indent=1, sort_keys=True)
        fh.write('\n')
    print('== %s: %d obligations, %d discharged, %d known finding(s), %d violation(s); %.1fs'
          % (prop, obligations, discharged, len(known_hit), len(violations), time.time() - rep.t0))
    return 1 if violations else 0
