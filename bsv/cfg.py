"""E2: intraprocedural control-flow reasoning over clang's CFG (built with setAllAlwaysAdd, trivially false
edges pruned, no EH edges: a throw ends the path)."""
from .facts import AnalysisBroken

BRANCH_TERMS = ('IfStmt', 'WhileStmt', 'ForStmt', 'DoStmt', 'ConditionalOperator', 'BinaryOperator', 'CXXForRangeStmt',
                'BinaryConditionalOperator')


class Block(object):
    __slots__ = ('id', 'el', 'succ', 'term', 'tk', 'tc', 'noret', 'label', 'nodes')

    def __init__(self, raw, f):
        self.id = raw['id']
        self.el = raw['el']
        self.succ = []
        for s in raw['succ']:
            if isinstance(s, dict):
                self.succ.append(None)   # unreachable (pruned) edge
            else:
                self.succ.append(s)
        self.term = raw.get('term')
        self.tk = raw.get('tk')
        self.tc = raw.get('tc')
        self.noret = bool(raw.get('noret'))
        self.label = raw.get('label')
        self.nodes = []
        for e in self.el:
            if isinstance(e, int):
                n = f.node(e)
                if n is not None:
                    self.nodes.append(n)
            elif isinstance(e, dict):
                if e.get('k') == 'DeclOf':
                    n = f.node(e['i'])
                    if n is not None:
                        self.nodes.append(n)
                elif e.get('k') == 'AutoDtor':
                    self.nodes.append({'k': 'AutoDtor', 'i': -1, 'd': e.get('d'), 'fn': e.get('fn', -1), 'c': []})
                elif e.get('k') == 'Init':
                    n = f.node(e['i'])
                    if n is not None:
                        self.nodes.append({'k': 'CtorInit', 'i': -1, 'c': [n], 'init': n})


class CFG(object):
    def __init__(self, f):
        raw = f.cfg
        if not raw:
            raise AnalysisBroken('no CFG for %s' % f.id)
        self.f = f
        self.entry = raw['entry']
        self.exit = raw['exit']
        self.blocks = {}
        for b in raw['blocks']:
            self.blocks[b['id']] = Block(b, f)
        self.preds = {i: [] for i in self.blocks}
        for b in self.blocks.values():
            for s in b.succ:
                if s is not None:
                    self.preds[s].append(b.id)

    def ends_in_throw(self, b):
        for n in reversed(b.nodes):
            if n['k'] == 'CXXThrowExpr':
                return True
            if n['k'] in ('ExprWithCleanups', 'AutoDtor'):
                continue
            break
        return b.noret

    # ---------------------------------------------------------------- path enumeration
    def paths(self, max_paths=20000, max_visits=2):
        """Enumerate entry->exit paths; each block is entered at most max_visits times per path (loops unrolled once).
        Yields (blocks, decisions, kind) where decisions is a list of (cond_node_id, branch_index) and
        kind is 'return' | 'throw'."""
        out = []
        stack = [(self.entry, [], [], {})]
        while stack:
            bid, path, dec, visits = stack.pop()
            b = self.blocks[bid]
            v = visits.get(bid, 0)
            if v >= max_visits:
                continue
            visits = dict(visits)
            visits[bid] = v + 1
            path = path + [bid]
            if bid == self.exit:
                last = self.blocks[path[-2]] if len(path) > 1 else None
                kind = 'throw' if (last is not None and self.ends_in_throw(last)) else 'return'
                out.append((path, dec, kind))
                if len(out) > max_paths:
                    raise AnalysisBroken('path explosion in %s (> %d paths)' % (self.f.id, max_paths))
                continue
            succs = b.succ
            if not succs:
                # dead end without reaching exit (noreturn)
                out.append((path, dec, 'throw'))
                continue
            live = [(i, s) for i, s in enumerate(succs) if s is not None]
            for i, s in live:
                d = dec
                if len(succs) > 1:
                    d = dec + [(b.tc if b.tc is not None else b.term, i, b.tk)]
                stack.append((s, path, d, visits))
        return out

    def path_nodes(self, path):
        for bid in path:
            for n in self.blocks[bid].nodes:
                yield n

    # ---------------------------------------------------------------- dominators
    def dominators(self):
        ids = list(self.blocks)
        dom = {i: set(ids) for i in ids}
        dom[self.entry] = {self.entry}
        changed = True
        while changed:
            changed = False
            for i in ids:
                if i == self.entry:
                    continue
                ps = [dom[p] for p in self.preds[i]]
                new = set.intersection(*ps) if ps else set()
                new = new | {i}
                if new != dom[i]:
                    dom[i] = new
                    changed = True
        return dom

    def reachable(self):
        seen = set()
        st = [self.entry]
        while st:
            b = st.pop()
            if b in seen:
                continue
            seen.add(b)
            for s in self.blocks[b].succ:
                if s is not None:
                    st.append(s)
        return seen

    # ---------------------------------------------------------------- forward dataflow
    def forward(self, init, transfer, join, edge=None, max_iter=10000):
        """Generic worklist. transfer(block, state) -> state at block end; edge(block, succ_index, state) refines per edge."""
        state_in = {self.entry: init}
        work = [self.entry]
        it = 0
        while work:
            it += 1
            if it > max_iter:
                raise AnalysisBroken('dataflow did not converge in %s' % self.f.id)
            bid = work.pop()
            b = self.blocks[bid]
            out = transfer(b, state_in[bid])
            for i, s in enumerate(b.succ):
                if s is None:
                    continue
                o = edge(b, i, out) if edge else out
                if o is None:
                    continue
                if s not in state_in:
                    state_in[s] = o
                    work.append(s)
                else:
                    j = join(state_in[s], o)
                    if j != state_in[s]:
                        state_in[s] = j
                        work.append(s)
        return state_in
