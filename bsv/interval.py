"""Integer intervals with the bit operations needed for UTF / MsgPack arithmetic (sound over-approximations;
exact whenever the operation maps an interval onto an interval)."""
from .dtab import INT_TYPES, base_type, int_conv


class Iv(object):
    __slots__ = ('lo', 'hi', 'tag')

    def __init__(self, lo, hi, tag=''):
        self.lo, self.hi, self.tag = lo, hi, tag

    def __repr__(self):
        return 'Iv(0x%x..0x%x%s)' % (self.lo, self.hi, (',' + self.tag) if self.tag else '') if self.lo >= 0 else 'Iv(%d..%d)' % (self.lo, self.hi)

    def const(self):
        return self.lo == self.hi


def as_iv(v):
    if isinstance(v, Iv):
        return v
    if isinstance(v, bool):
        return Iv(int(v), int(v))
    if isinstance(v, int):
        return Iv(v, v)
    return None


def type_range(t):
    info = INT_TYPES.get(base_type(t))
    if not info:
        return None
    bits, signed = info
    if bits == 1:
        return (0, 1)
    return (-(1 << (bits - 1)), (1 << (bits - 1)) - 1) if signed else (0, (1 << bits) - 1)


def cast(v, t):
    r = type_range(t)
    if r is None:
        return v
    if v.lo >= r[0] and v.hi <= r[1]:
        return v
    info = INT_TYPES.get(base_type(t))
    bits = info[0]
    if v.hi - v.lo < (1 << bits):
        wl, wh = int_conv(v.lo, t), int_conv(v.hi, t)
        if wl <= wh:
            return Iv(wl, wh, v.tag)
    return Iv(r[0], r[1], '')


def compare(op, a, b):
    """1 / 0 when decided for every pair of values, else None"""
    res = {
        '<': (a.hi < b.lo, a.lo >= b.hi), '<=': (a.hi <= b.lo, a.lo > b.hi), '>': (a.lo > b.hi, a.hi <= b.lo), '>=': (a.lo >= b.hi, a.hi < b.lo),
        '==': (a.const() and b.const() and a.lo == b.lo, a.hi < b.lo or a.lo > b.hi),
        '!=': (a.hi < b.lo or a.lo > b.hi, a.const() and b.const() and a.lo == b.lo)}[op]
    if res[0]:
        return 1
    if res[1]:
        return 0
    return None


def _and_mask(a, m):
    """interval & constant mask (a >= 0, m >= 0)"""
    if m == 0:
        return Iv(0, 0)
    low = m & -m
    contiguous_from_zero = (m & (m + 1)) == 0          # 0b0..01..1
    if contiguous_from_zero:
        if a.hi <= m:
            return Iv(a.lo, a.hi, a.tag)
        if (a.lo & ~m) == (a.hi & ~m):
            return Iv(a.lo & m, a.hi & m)
        return Iv(0, m)
    # general mask: if the interval does not change any bit outside/inside ... exact only for constant blocks
    if a.const():
        return Iv(a.lo & m, a.lo & m)
    # mask = high bits kept (e.g. 0b11100000): values within one aligned block of size 'low' keep a constant result
    if (a.lo & ~(low - 1)) == (a.hi & ~(low - 1)):
        v = a.lo & m
        return Iv(v, v)
    # monotone: (x & m) is non-decreasing in blocks; bound by [lo & m, hi & m] when m keeps a prefix of high bits
    top = m | (low - 1)
    if (top & (top + 1)) == 0:
        return Iv(a.lo & m, a.hi & m)
    return Iv(0, m)


def binop(op, a, b):
    """a, b: Iv. Returns Iv or None (unknown)."""
    if op == '+':
        return Iv(a.lo + b.lo, a.hi + b.hi)
    if op == '-':
        return Iv(a.lo - b.hi, a.hi - b.lo)
    if op == '*' and b.const() and b.lo >= 0:
        return Iv(a.lo * b.lo, a.hi * b.lo)
    if op == '*' and a.const() and a.lo >= 0:
        return Iv(b.lo * a.lo, b.hi * a.lo)
    if op == '<<' and b.const() and a.lo >= 0 and 0 <= b.lo < 64:
        return Iv(a.lo << b.lo, a.hi << b.lo, 'SHL%d' % b.lo)
    if op == '>>' and b.const() and a.lo >= 0 and 0 <= b.lo < 64:
        return Iv(a.lo >> b.lo, a.hi >> b.lo)
    if op == '&':
        if b.const() and a.lo >= 0 and b.lo >= 0:
            return _and_mask(a, b.lo)
        if a.const() and b.lo >= 0 and a.lo >= 0:
            return _and_mask(b, a.lo)
        if a.lo >= 0 and b.lo >= 0:
            return Iv(0, min(a.hi, b.hi))
        return None
    if op == '|':
        if a.lo < 0 or b.lo < 0:
            return None
        for x, y in ((a, b), (b, a)):
            if y.const():
                c = y.lo
                if c == 0:
                    return Iv(x.lo, x.hi, x.tag)
                lowbit = c & -c
                if x.hi < lowbit:
                    return Iv(x.lo + c, x.hi + c)       # disjoint bits: OR is addition
        # x has its low k bits zero (multiple of 2^k) and y < 2^k
        for x, y in ((a, b), (b, a)):
            if y.hi >= 0:
                k = y.hi.bit_length()
                if x.lo % (1 << k) == 0 and x.hi % (1 << k) == 0:
                    # only exact when every value of x is a multiple of 2^k: true for shifted intervals (caller's responsibility via tag)
                    if x.tag.startswith('SHL') and int(x.tag[3:]) >= k:
                        return Iv(x.lo + y.lo, x.hi + y.hi)
        hi = (1 << max(a.hi.bit_length(), b.hi.bit_length())) - 1
        return Iv(max(a.lo, b.lo), hi)
    if op == '^':
        return None
    if op == '/' and b.const() and b.lo > 0 and a.lo >= 0:
        return Iv(a.lo // b.lo, a.hi // b.lo)
    if op == '%' and b.const() and b.lo > 0 and a.lo >= 0:
        if a.hi - a.lo < b.lo and (a.lo % b.lo) <= (a.hi % b.lo):
            return Iv(a.lo % b.lo, a.hi % b.lo)
        return Iv(0, b.lo - 1)
    return None
