"""Small expression helpers shared by the rules: named temporaries and boolean structure of conditions."""
import itertools
from .facts import strip, AnalysisBroken

_INITS = {}


def named_inits(f):
    """locals with exactly one initialiser that are never written again: {decl id: initialiser node}"""
    inits = _INITS.get(f.id)
    if inits is None:
        inits, written = {}, set()
        for x in f.walk():
            if x['k'] == 'DeclStmt' and len(x.get('decls') or []) == 1 and x.get('c'):
                inits[x['decls'][0]['d']] = x['c'][0]
            if x['k'] in ('BinaryOperator', 'CompoundAssignOperator') and x.get('op', '').endswith('=') and x.get('op') not in ('==', '!=', '<=', '>='):
                t = strip(x['c'][0])
                if t is not None and t['k'] == 'DeclRefExpr':
                    written.add(t.get('d'))
            if x['k'] == 'UnaryOperator' and x.get('op') in ('++', '--'):
                t = strip(x['c'][0])
                if t is not None and t['k'] == 'DeclRefExpr':
                    written.add(t.get('d'))
            if x['k'] == 'CXXOperatorCallExpr' and x.get('op') in ('=', '+=', '-=', '++', '--') and len(x['c']) > 1:
                t = strip(x['c'][1])
                if t is not None and t['k'] == 'DeclRefExpr':
                    written.add(t.get('d'))
        inits = {d: v for d, v in inits.items() if d not in written}
        _INITS[f.id] = inits
    return inits


def resolve(f, e, limit=4):
    """strip casts/parens and replace a named temporary by its initialiser"""
    e = strip(e)
    while e is not None and limit > 0 and e['k'] == 'DeclRefExpr' and e.get('dk') in ('Var', None) and not e.get('g'):
        ini = named_inits(f).get(e.get('d'))
        if ini is None:
            break
        e = strip(ini)
        limit -= 1
    return e


class BoolExpr(object):
    """condition as a boolean function of named atoms. classify(node) -> (atom, positive) or None."""

    def __init__(self, f, cond, classify):
        self.f = f
        self.atoms = []
        self.unknown = []
        self.tree = self._build(cond, classify)

    def _build(self, e, classify):
        e = resolve(self.f, e)
        if e is None:
            self.unknown.append(None)
            return ('?',)
        c = classify(e)
        if c is not None:
            if c[0] not in self.atoms:
                self.atoms.append(c[0])
            return ('atom', c[0], c[1])
        k = e['k']
        if 'cv' in e and k not in ('DeclRefExpr', 'MemberExpr'):
            return ('const', bool(e['cv']))
        if k == 'UnaryOperator' and e.get('op') == '!':
            return ('not', self._build(e['c'][0], classify))
        if k == 'BinaryOperator' and e.get('op') in ('&&', '||'):
            return (e['op'], self._build(e['c'][0], classify), self._build(e['c'][1], classify))
        if k == 'BinaryOperator' and e.get('op') in ('==', '!=') and self.f.type(e['c'][0]).strip() in ('bool', 'const bool'):
            a, b = self._build(e['c'][0], classify), self._build(e['c'][1], classify)
            x = ('xor', a, b)
            return x if e['op'] == '!=' else ('not', x)
        self.unknown.append(e)
        return ('?',)

    def value(self, env, t=None):
        t = self.tree if t is None else t
        k = t[0]
        if k == 'atom':
            return env[t[1]] == t[2]
        if k == 'const':
            return t[1]
        if k == 'not':
            return not self.value(env, t[1])
        if k == '&&':
            return self.value(env, t[1]) and self.value(env, t[2])
        if k == '||':
            return self.value(env, t[1]) or self.value(env, t[2])
        if k == 'xor':
            return self.value(env, t[1]) != self.value(env, t[2])
        raise AnalysisBroken('condition with a part the boolean evaluator does not understand')

    def table(self):
        for vals in itertools.product((False, True), repeat=len(self.atoms)):
            env = dict(zip(self.atoms, vals))
            yield env, self.value(env)
