"""E1: may-throw closure over the resolved call graph; sinks are functions whose type is nothrow.

Sources   : throw expressions; calls to functions outside the repository that are not nothrow by type and
            are classified 'raises' (tables/externals.json); unclassified externals are treated as raises and
            reported as such.
Propagation: resolved calls; virtual calls to every overrider present in the analysed program; destructors of
            locals / temporaries / members; constructor initialisers.  Stopped by catch(...) or by a handler
            whose type is the thrown type or one of its bases.
Sinks     : functions whose function type is nothrow (destructors by default, noexcept, noexcept(expr) as
            evaluated per instantiation).
"""
import json
import os
import re

from .facts import VERIF, child

CALL_KINDS = ('CallExpr', 'CXXMemberCallExpr', 'CXXOperatorCallExpr', 'CXXConstructExpr', 'CXXTemporaryObjectExpr',
              'CXXBindTemporaryExpr', 'CXXNewExpr', 'CXXDeleteExpr', 'UserDefinedLiteral')

STD_EXC = 'std::exception'


class Externals(object):
    def __init__(self):
        with open(os.path.join(VERIF, 'tables', 'externals.json')) as fh:
            t = json.load(fh)
        self.pure = [re.compile(x) for x in t['pure']]
        self.alloc = [re.compile(x) for x in t['alloc_only']]
        self.raises = [re.compile(x) for x in t['raises']]
        self.seen = {}

    def classify(self, q):
        c = self.seen.get(q)
        if c:
            return c
        c = 'unclassified'
        for name, lst in (('raises', self.raises), ('pure', self.pure), ('alloc', self.alloc)):
            if any(r.search(q) for r in lst):
                c = name
                break
        self.seen[q] = c
        return c


class Thrown(object):
    __slots__ = ('type', 'bases', 'kind')

    def __init__(self, type_, bases, kind):
        self.type = type_
        self.bases = tuple(bases)
        self.kind = kind  # 'throw' | 'external' | 'alloc' | 'unclassified'

    def key(self):
        return (self.type, self.kind)


def caught_by(handlers, thrown):
    """handlers: list of caught type names (qualified, None = catch-all)."""
    for h in handlers:
        if h is None:
            return True
        if h in thrown.bases or h == thrown.type:
            return True
    return False


class NoThrow(object):
    def __init__(self, prog, include_alloc=False):
        self.prog = prog
        self.ext = Externals()
        self.include_alloc = include_alloc
        self.events = {}      # fid -> list of events
        self.summary = {}     # fid -> dict thrown-key -> (Thrown, chain)
        self.overriders = {}  # method id -> set of overrider ids
        self._build_overriders()
        self._collect()
        self._fixpoint()

    # ------------------------------------------------------------------ virtual dispatch
    def _build_overriders(self):
        direct = {}
        for tu in self.prog.tus:
            syms = tu['syms']
            for s in syms:
                for o in s.get('ovr', ()):
                    direct.setdefault(syms[o]['id'], set()).add(s['id'])
        def closure(mid, seen):
            for d in direct.get(mid, ()):
                if d not in seen:
                    seen.add(d)
                    closure(d, seen)
            return seen
        for mid in list(direct):
            self.overriders[mid] = closure(mid, set())

    def targets(self, f, node, sym):
        """Resolved target symbols of a call node."""
        if node.get('vcall'):
            out = [sym] if not sym.get('pure') else []
            for oid in self.overriders.get(sym['id'], ()):
                s2 = self.prog.syms.get(oid)
                if s2 is not None:
                    out.append(s2)
            return out
        return [sym]

    # ------------------------------------------------------------------ events
    def _collect(self):
        for f in self.prog.funcs.values():
            ev = []
            for root in f.roots():
                self._walk(f, root, [], ev)
            for d in f.sym.get('mdtors', ()):
                ev.append(('call', f.tu['syms'][d], None, [], False))
            self.events[f.id] = ev

    def _walk(self, f, n, handlers, ev):
        k = n['k']
        if k == 'CXXTryStmt':
            hs = []
            for c, r in zip(n['c'], n.get('r', [])):
                if r == 'handler':
                    hs.append(c.get('ctq', c.get('ct')))
            for c, r in zip(n['c'], n.get('r', [])):
                if r == 'block':
                    self._walk(f, c, handlers + [hs], ev)
                else:
                    self._walk(f, c, handlers, ev)
            return
        if k == 'CXXThrowExpr':
            if n.get('rethrow'):
                ev.append(('rethrow', None, n, handlers, False))
            else:
                ev.append(('throw', Thrown(n.get('tt', '?'), n.get('tb', []), 'throw'), n, handlers, False))
        elif k in CALL_KINDS and n.get('fn', -1) is not None and n.get('fn', -1) >= 0:
            ev.append(('call', f.tu['syms'][n['fn']], n, handlers, bool(n.get('vcall'))))
        elif k == 'DeclStmt':
            for d in n.get('decls', ()):
                if 'dtor' in d:
                    ev.append(('call', f.tu['syms'][d['dtor']], n, handlers, False))
        elif k == 'LambdaExpr':
            pass
        for c in n.get('c', ()):
            self._walk(f, c, handlers, ev)

    # ------------------------------------------------------------------ fixpoint
    def _callee_throws(self, f, sym, node, vcall):
        """dict key -> (Thrown, chain) of what a call to sym may propagate to the caller."""
        out = {}
        syms = self.targets(f, node, sym) if vcall and node is not None else [sym]
        for s in syms:
            if s.get('nothrow'):
                continue
            fid = s['id']
            if fid in self.prog.funcs:
                for key, (t, chain) in self.summary.get(fid, {}).items():
                    if key not in out:
                        out[key] = (t, [fid] + chain)
                continue
            if s.get('repo'):
                # declared in the repository but no body in the analysed program (pure virtual, or defaulted)
                continue
            c = self.ext.classify(s['q'])
            if c == 'pure':
                continue
            if c == 'alloc':
                if self.include_alloc:
                    t = Thrown('std::bad_alloc', ['std::bad_alloc', STD_EXC], 'alloc')
                    out.setdefault(t.key(), (t, ['<external> ' + s['q']]))
                continue
            kind = 'external' if c == 'raises' else 'unclassified'
            t = Thrown('<raised by %s>' % s['q'], [STD_EXC], kind)
            out.setdefault(('<external>', kind, s['q']), (t, ['<external%s> %s' % ('' if c == 'raises' else ', UNCLASSIFIED', s['q'])]))
        return out

    def _fixpoint(self):
        funcs = self.prog.funcs
        for fid in funcs:
            self.summary[fid] = {}
        changed = True
        rounds = 0
        while changed:
            changed = False
            rounds += 1
            for fid, f in funcs.items():
                summ = self.summary[fid]
                for kind, what, node, handlers, vcall in self.events[fid]:
                    if kind == 'throw':
                        cands = {what.key(): (what, [])}
                    elif kind == 'call':
                        cands = self._callee_throws(f, what, node, vcall)
                    else:
                        continue
                    for key, (t, chain) in cands.items():
                        if any(caught_by(hs, t) for hs in handlers):
                            continue
                        if key not in summ:
                            line = node.get('l', 0) if node is not None else f.line
                            summ[key] = (t, [('%s:%d' % (f.relfile, line))] + chain)
                            changed = True
        self.rounds = rounds

    # ------------------------------------------------------------------ results
    def sinks(self):
        """Yield (func, [(Thrown, chain)]) for every nothrow function of the repository with a non-empty summary."""
        for fid, f in self.prog.funcs.items():
            if not f.sym.get('nothrow'):
                continue
            yield f, list(self.summary[fid].values())

    def nothrow_functions(self):
        return [f for f in self.prog.funcs.values() if f.sym.get('nothrow')]

    def pretty_chain(self, f, chain):
        out = []
        for c in chain:
            if c in self.prog.funcs:
                g = self.prog.funcs[c]
                out.append('%s (%s)' % (short(g.id), g.loc()))
            else:
                out.append(c)
        return out


def short(fid):
    s = fid.split('|')[0]
    s = s.replace('BitSerializer::', '')
    s = re.sub(r'std::basic_string<char>', 'std::string', s)
    return s if len(s) < 160 else s[:157] + '...'
