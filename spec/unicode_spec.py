"""Oracle: The Unicode Standard, chapter 3 (D90-D92, Table 3-6 'UTF-8 Bit Distribution', Table 3-7 'Well-Formed UTF-8 Byte
Sequences', D91 UTF-16 surrogate pairs). Written by hand from the standard, not from BitSerializer."""

# Table 3-7: (first byte range, [ranges of the following bytes])
UTF8_WELL_FORMED = [
    ((0x00, 0x7F), []),
    ((0xC2, 0xDF), [(0x80, 0xBF)]),
    ((0xE0, 0xE0), [(0xA0, 0xBF), (0x80, 0xBF)]),
    ((0xE1, 0xEC), [(0x80, 0xBF), (0x80, 0xBF)]),
    ((0xED, 0xED), [(0x80, 0x9F), (0x80, 0xBF)]),
    ((0xEE, 0xEF), [(0x80, 0xBF), (0x80, 0xBF)]),
    ((0xF0, 0xF0), [(0x90, 0xBF), (0x80, 0xBF), (0x80, 0xBF)]),
    ((0xF1, 0xF3), [(0x80, 0xBF), (0x80, 0xBF), (0x80, 0xBF)]),
    ((0xF4, 0xF4), [(0x80, 0x8F), (0x80, 0xBF), (0x80, 0xBF)]),
]

# partition of the second byte induced by Table 3-7
SECOND_BYTE_CLASSES = [(0x00, 0x7F), (0x80, 0x8F), (0x90, 0x9F), (0xA0, 0xBF), (0xC0, 0xC1), (0xC2, 0xF4), (0xF5, 0xFF)]
CONT = (0x80, 0xBF)


def utf8_length_by_lead(b):
    """number of bytes a sequence STARTING with lead byte b claims (Table 3-6 bit patterns); 0 = not a lead byte"""
    if b <= 0x7F:
        return 1
    if 0xC0 <= b <= 0xDF:
        return 2
    if 0xE0 <= b <= 0xEF:
        return 3
    if 0xF0 <= b <= 0xF7:
        return 4
    return 0


def utf8_well_formed(lead, second):
    """is (lead, second-byte class, valid continuation bytes...) a well-formed sequence by Table 3-7?"""
    for (lo, hi), follow in UTF8_WELL_FORMED:
        if lo <= lead <= hi:
            if not follow:
                return True
            return second is not None and follow[0][0] <= second[0] and second[1] <= follow[0][1]
    return False


def utf8_scalar_interval(lead, second, n):
    """interval of scalar values decoded from lead + second-byte class + (n-2) full continuation classes (Table 3-6)"""
    if n == 1:
        return (lead, lead)
    mask = {2: 0x1F, 3: 0x0F, 4: 0x07}[n]
    top = lead & mask
    lo = (top << 6) | (second[0] & 0x3F)
    hi = (top << 6) | (second[1] & 0x3F)
    for _ in range(n - 2):
        lo = (lo << 6) | 0x00
        hi = (hi << 6) | 0x3F
    return (lo, hi)


def utf8_ill_formed_reason(lead, second):
    n = utf8_length_by_lead(lead)
    if n == 0:
        return 'invalid lead byte'
    if n == 1:
        return None
    if second is None or second[0] < 0x80 or second[1] > 0xBF:
        return 'bad continuation byte'
    lo, hi = utf8_scalar_interval(lead, second, n)
    minimum = {2: 0x80, 3: 0x800, 4: 0x10000}[n]
    if hi < minimum:
        return 'overlong %d-byte form' % n
    if lo > 0x10FFFF:
        return 'code point above U+10FFFF'
    if lo >= 0xD800 and hi <= 0xDFFF:
        return 'surrogate code point'
    return None


# scalar value classes for encoders (D76: Unicode scalar value = 0..D7FF, E000..10FFFF)
SCALAR_CLASSES_32 = [
    ((0x00, 0x7F), 'ascii'), ((0x80, 0x7FF), '2-byte'), ((0x800, 0xD7FF), '3-byte'), ((0xD800, 0xDBFF), 'high surrogate'),
    ((0xDC00, 0xDFFF), 'low surrogate'), ((0xE000, 0xFFFF), '3-byte'), ((0x10000, 0x10FFFF), '4-byte'), ((0x110000, 0xFFFFFFFF), 'out of range'),
]
UNIT_CLASSES_16 = [
    ((0x00, 0x7F), 'ascii'), ((0x80, 0x7FF), '2-byte'), ((0x800, 0xD7FF), '3-byte'), ((0xD800, 0xDBFF), 'high surrogate'),
    ((0xDC00, 0xDFFF), 'low surrogate'), ((0xE000, 0xFFFF), '3-byte'),
]
SECOND_UNIT_CLASSES_16 = [((0x0000, 0xD7FF), 'not a surrogate'), ((0xD800, 0xDBFF), 'high surrogate'), ((0xDC00, 0xDFFF), 'low surrogate'),
                          ((0xE000, 0xFFFF), 'not a surrogate')]


def utf8_bytes_of(lo, hi):
    """interval-wise UTF-8 encoding (Table 3-6) of every scalar in [lo, hi] (one length class): list of (lo, hi) per byte"""
    def blk(a, b, shift, mask, prefix):
        x, y = (a >> shift) & mask, (b >> shift) & mask
        if (b >> shift) - (a >> shift) >= mask + 1 or x > y:
            return (prefix, prefix | mask)
        if ((a >> shift) & ~mask) != ((b >> shift) & ~mask):
            return (prefix, prefix | mask)
        return (prefix | x, prefix | y)
    if hi <= 0x7F:
        return [(lo, hi)]
    if hi <= 0x7FF:
        return [(0xC0 | (lo >> 6), 0xC0 | (hi >> 6)), blk(lo, hi, 0, 0x3F, 0x80)]
    if hi <= 0xFFFF:
        return [(0xE0 | (lo >> 12), 0xE0 | (hi >> 12)), blk(lo, hi, 6, 0x3F, 0x80), blk(lo, hi, 0, 0x3F, 0x80)]
    return [(0xF0 | (lo >> 18), 0xF0 | (hi >> 18)), blk(lo, hi, 12, 0x3F, 0x80), blk(lo, hi, 6, 0x3F, 0x80), blk(lo, hi, 0, 0x3F, 0x80)]


def utf16_units_of(lo, hi):
    """interval-wise UTF-16 encoding (D91) of every scalar in [lo, hi] (one class)"""
    if hi <= 0xFFFF:
        return [(lo, hi)]
    a, b = lo - 0x10000, hi - 0x10000
    high = (0xD800 + (a >> 10), 0xD800 + (b >> 10))
    if (b - a) >= 0x400 or (a & 0x3FF) > (b & 0x3FF) or (a >> 10) != (b >> 10):
        low = (0xDC00, 0xDFFF)
    else:
        low = (0xDC00 + (a & 0x3FF), 0xDC00 + (b & 0x3FF))
    return [high, low]


def pair_scalar_interval(h, l):
    """scalar interval of surrogate pairs with high in h=(lo,hi) and low in l=(lo,hi)"""
    lo = 0x10000 + (((h[0] & 0x3FF) << 10) | (l[0] & 0x3FF))
    hi = 0x10000 + (((h[1] & 0x3FF) << 10) | (l[1] & 0x3FF))
    return (lo, hi)
