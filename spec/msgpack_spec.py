"""Oracle: the MessagePack specification (https://github.com/msgpack/msgpack/blob/master/spec.md), written by hand.
Every line carries its source in the spec's 'Formats' overview table. Nothing here is derived from BitSerializer."""

# ValueType enumerators of the library (msgpack_archive.h) - names only; numeric values come from clang's evaluation.
VT = ['Unknown', 'Nil', 'Boolean', 'UnsignedInteger', 'SignedInteger', 'Float', 'Double', 'String', 'Array', 'BinaryArray', 'Map', 'Ext', 'Timestamp']


def family(b):
    """spec 'Overview' table: first byte -> (format name, family, length-field bytes, fixed payload bytes, embedded count)"""
    if b <= 0x7f:
        return ('positive fixint', 'uint', 0, 0, None)
    if b <= 0x8f:
        return ('fixmap', 'map', 0, 0, b & 0x0f)
    if b <= 0x9f:
        return ('fixarray', 'array', 0, 0, b & 0x0f)
    if b <= 0xbf:
        return ('fixstr', 'str', 0, 0, b & 0x1f)
    t = {
        0xc0: ('nil', 'nil', 0, 0, None), 0xc1: ('(never used)', 'unused', 0, 0, None),
        0xc2: ('false', 'bool', 0, 0, None), 0xc3: ('true', 'bool', 0, 0, None),
        0xc4: ('bin 8', 'bin', 1, 0, None), 0xc5: ('bin 16', 'bin', 2, 0, None), 0xc6: ('bin 32', 'bin', 4, 0, None),
        0xc7: ('ext 8', 'ext', 1, 0, None), 0xc8: ('ext 16', 'ext', 2, 0, None), 0xc9: ('ext 32', 'ext', 4, 0, None),
        0xca: ('float 32', 'float32', 0, 4, None), 0xcb: ('float 64', 'float64', 0, 8, None),
        0xcc: ('uint 8', 'uint', 0, 1, None), 0xcd: ('uint 16', 'uint', 0, 2, None), 0xce: ('uint 32', 'uint', 0, 4, None), 0xcf: ('uint 64', 'uint', 0, 8, None),
        0xd0: ('int 8', 'int', 0, 1, None), 0xd1: ('int 16', 'int', 0, 2, None), 0xd2: ('int 32', 'int', 0, 4, None), 0xd3: ('int 64', 'int', 0, 8, None),
        0xd4: ('fixext 1', 'ext', 0, 1, None), 0xd5: ('fixext 2', 'ext', 0, 2, None), 0xd6: ('fixext 4', 'ext', 0, 4, None),
        0xd7: ('fixext 8', 'ext', 0, 8, None), 0xd8: ('fixext 16', 'ext', 0, 16, None),
        0xd9: ('str 8', 'str', 1, 0, None), 0xda: ('str 16', 'str', 2, 0, None), 0xdb: ('str 32', 'str', 4, 0, None),
        0xdc: ('array 16', 'array', 2, 0, None), 0xdd: ('array 32', 'array', 4, 0, None),
        0xde: ('map 16', 'map', 2, 0, None), 0xdf: ('map 32', 'map', 4, 0, None),
    }
    if b in t:
        return t[b]
    return ('negative fixint', 'int', 0, 0, None)


def value_type_name(b):
    """The library's ValueType a conforming classifier must assign to first byte b (ext families report Ext; the
    timestamp refinement needs the type byte and is checked separately)."""
    fam = family(b)[1]
    return {'uint': 'UnsignedInteger', 'int': 'SignedInteger', 'map': 'Map', 'array': 'Array', 'str': 'String', 'nil': 'Nil',
            'unused': 'Unknown', 'bool': 'Boolean', 'bin': 'BinaryArray', 'ext': 'Ext', 'float32': 'Float', 'float64': 'Double'}[fam]


def skip_layout(b):
    """(fixed bytes after the first byte that belong to this value, length-field width, kind of the length:
    'bytes' = that many payload bytes follow, 'items' = that many values follow, 'pairs' = 2x values follow, None)
    ext: one extra type byte is part of the fixed bytes."""
    name, fam, lf, fixed, emb = family(b)
    if fam in ('uint', 'int', 'float32', 'float64'):
        return (fixed, 0, None, 0)
    if fam in ('nil', 'bool', 'unused'):
        return (0, 0, None, 0)
    if fam == 'str':
        return (0, lf, 'bytes', emb if emb is not None else 0)
    if fam == 'bin':
        return (0, lf, 'bytes', 0)
    if fam == 'array':
        return (0, lf, 'items', emb if emb is not None else 0)
    if fam == 'map':
        return (0, lf, 'pairs', emb if emb is not None else 0)
    if fam == 'ext':
        if lf:
            return (1, lf, 'bytes', 0)          # type byte + N data bytes
        return (1 + fixed, 0, None, 0)          # fixext N: type byte + N data bytes
    raise ValueError(b)


# Accept sets per target family (spec: int format family / float format family / str / bin / array / map / nil / timestamp ext)
def accept_set(target):
    allb = range(256)
    if target == 'nil':
        return {0xc0}
    if target == 'int':
        # int format family, plus the library's documented extension: booleans load into integers and vice versa
        return {b for b in allb if family(b)[1] in ('uint', 'int')} | {0xc2, 0xc3}
    if target == 'float':
        return {0xca, 0xcb}
    if target == 'str':
        return {b for b in allb if family(b)[1] == 'str'}
    if target == 'bin':
        return {0xc4, 0xc5, 0xc6}
    if target == 'array':
        return {b for b in allb if family(b)[1] == 'array'}
    if target == 'map':
        return {b for b in allb if family(b)[1] == 'map'}
    if target == 'timestamp':
        # timestamp 32 = fixext4, timestamp 64 = fixext8, timestamp 96 = ext8 (len 12); type -1. The first byte alone admits:
        return {0xd6, 0xd7, 0xc7}
    raise ValueError(target)


def fixint_value(b):
    return b if b <= 0x7f else b - 256


# spec 'int format family' / 'float format family': payload of each code: (bytes, signedness)
INT_PAYLOAD = {0xcc: (1, 'u'), 0xcd: (2, 'u'), 0xce: (4, 'u'), 0xcf: (8, 'u'), 0xd0: (1, 's'), 0xd1: (2, 's'), 0xd2: (4, 's'), 0xd3: (8, 's')}

# Timestamp extension type (spec 'Timestamp extension type'): ext type -1; timestamp 32: fixext4 (d6), 64: fixext8 (d7), 96: ext8 (c7) len 12
TIMESTAMP_EXT_TYPE = -1
TIMESTAMP_LAYOUTS = {0xd6: 4, 0xd7: 8, 0xc7: 12}


# ---------------------------------------------------------------- writer side: most compact legal format
def compact_uint(lo, hi):
    """most compact format for every unsigned value in [lo, hi] or None if the interval straddles a threshold"""
    ths = [(0, 0x7f, 'positive fixint', 0), (0x80, 0xff, 'uint 8', 1), (0x100, 0xffff, 'uint 16', 2),
           (0x10000, 0xffffffff, 'uint 32', 4), (0x100000000, 0xffffffffffffffff, 'uint 64', 8)]
    for a, b, name, n in ths:
        if lo >= a and hi <= b:
            return name, n
    return None


def compact_sint(lo, hi):
    """most compact format for every signed value in [lo, hi]: non-negative values use the unsigned family
    (spec: 'positive fixint/uint N stores a unsigned integer'; serializers SHOULD use the smallest format)"""
    if lo >= 0:
        return compact_uint(lo, hi)
    ths = [(-32, -1, 'negative fixint', 0), (-128, -33, 'int 8', 1), (-32768, -129, 'int 16', 2),
           (-2147483648, -32769, 'int 32', 4), (-9223372036854775808, -2147483649, 'int 64', 8)]
    for a, b, name, n in ths:
        if lo >= a and hi <= b:
            return name, n
    return None


FIRST_BYTE = {'uint 8': 0xcc, 'uint 16': 0xcd, 'uint 32': 0xce, 'uint 64': 0xcf, 'int 8': 0xd0, 'int 16': 0xd1, 'int 32': 0xd2, 'int 64': 0xd3,
              'float 32': 0xca, 'float 64': 0xcb, 'nil': 0xc0, 'false': 0xc2, 'true': 0xc3,
              'str 8': 0xd9, 'str 16': 0xda, 'str 32': 0xdb, 'bin 8': 0xc4, 'bin 16': 0xc5, 'bin 32': 0xc6,
              'array 16': 0xdc, 'array 32': 0xdd, 'map 16': 0xde, 'map 32': 0xdf,
              'fixext 4': 0xd6, 'fixext 8': 0xd7, 'ext 8': 0xc7}


def compact_len(kind, lo, hi):
    """(format, first byte or (mask, bits), length-field bytes) for a length in [lo,hi]; None if straddling; 'TOOBIG' above 2^32-1"""
    if kind == 'str':
        ths = [(0, 31, 'fixstr', ('mask', 0xa0), 0), (32, 0xff, 'str 8', 0xd9, 1), (0x100, 0xffff, 'str 16', 0xda, 2), (0x10000, 0xffffffff, 'str 32', 0xdb, 4)]
    elif kind == 'bin':
        ths = [(0, 0xff, 'bin 8', 0xc4, 1), (0x100, 0xffff, 'bin 16', 0xc5, 2), (0x10000, 0xffffffff, 'bin 32', 0xc6, 4)]
    elif kind == 'array':
        ths = [(0, 15, 'fixarray', ('mask', 0x90), 0), (16, 0xffff, 'array 16', 0xdc, 2), (0x10000, 0xffffffff, 'array 32', 0xdd, 4)]
    elif kind == 'map':
        ths = [(0, 15, 'fixmap', ('mask', 0x80), 0), (16, 0xffff, 'map 16', 0xde, 2), (0x10000, 0xffffffff, 'map 32', 0xdf, 4)]
    else:
        raise ValueError(kind)
    for a, b, name, fb, n in ths:
        if lo >= a and hi <= b:
            return name, fb, n
    if lo > 0xffffffff:
        return 'TOOBIG'
    return None


# int format family: (format, total encoded size, representable range) - spec 'int format family'
INT_FORMATS = [
    ('positive fixint', 1, 0, 0x7f), ('negative fixint', 1, -32, -1),
    ('uint 8', 2, 0, 0xff), ('int 8', 2, -128, 127),
    ('uint 16', 3, 0, 0xffff), ('int 16', 3, -32768, 32767),
    ('uint 32', 5, 0, 0xffffffff), ('int 32', 5, -2147483648, 2147483647),
    ('uint 64', 9, 0, 0xffffffffffffffff), ('int 64', 9, -9223372036854775808, 9223372036854775807),
]


def smallest_int_formats(lo, hi):
    """all int formats of minimal encoded size able to hold every value of [lo, hi]"""
    cands = [(size, name) for name, size, a, b in INT_FORMATS if lo >= a and hi <= b]
    if not cands:
        return []
    m = min(c[0] for c in cands)
    return [name for size, name in cands if size == m]
