#!/usr/bin/env python3
"""Static verification driver for BitSerializer.

usage: python3 bsverify.py --property Cxx [--tier quick|thorough]

Decides the structural clauses of one property from /repo's current source (no library code is executed),
prints what was analysed, KNOWN-FINDING / VIOLATION lines, writes evidence/<id>.json.
exit 0 = all obligations discharged (known findings listed), 1 = unlisted violation, 2 = analysis broken.
"""
import argparse
import importlib
import os
import sys
import traceback

sys.path.insert(0, os.path.dirname(os.path.abspath(__file__)))

from bsv import core, facts  # noqa: E402


def main():
    ap = argparse.ArgumentParser()
    ap.add_argument('--property', required=True)
    ap.add_argument('--tier', default=os.environ.get('VERIF_TIER', 'quick'), choices=['quick', 'thorough'])
    args = ap.parse_args()
    prop = args.property.upper()
    try:
        seed = int(os.environ.get('VERIF_SEED', '0'))
    except ValueError:
        seed = 0
    try:
        mod = importlib.import_module('rules.%s' % prop.lower())
    except ImportError as e:
        print('no check registered for %s (%s)' % (prop, e))
        return 2
    rep = core.Report(prop, args.tier)
    try:
        prog = facts.Program(tier=args.tier, want=getattr(mod, 'UNITS', None))
        print('[units] ' + ', '.join(os.path.relpath(u, '/') for u in prog.units))
        mod.run(prog, rep)
        rc = core.finish(rep, mod.LEVEL, mod.EXPLANATION, mod.ASSUMPTIONS, mod.TRUSTED, seed=seed)
        return rc
    except facts.AnalysisBroken as e:
        print('ANALYSIS-BROKEN property=%s: %s' % (prop, e))
        return 2
    except Exception:
        traceback.print_exc()
        print('ANALYSIS-BROKEN property=%s: internal error in the checker' % prop)
        return 2


if __name__ == '__main__':
    sys.exit(main())
